package synth

import (
	"fmt"
	"strings"

	"pgregory.net/rapid"
)

// SQLOpts configures the sql profile: a model file whose structs are all
// tables, plus a sibling file with payload structs, composites, nullable
// wrappers and the date helpers the CRUD generator relies on.
type SQLOpts struct {
	Avoid     map[string]string
	OnExclude func(string)
	OnClass   func(string)

	Directives        bool // gomacro:SQL / gomacro:QUERY comment directives (C16)
	JSONHeavy         bool // at least one jsonb column (C04)
	PlainQueries      bool // custom queries (UPDATE .. SET c = $a$ WHERE d = $b$, DELETE .. WHERE d = $k$) over scalar columns (executed by C05)
	PayloadEmbeds     bool // stored documents may embed a struct (flattened; untagged or options-only tag) (C04)
	NoJSON            bool
	Executable        bool // restrict to shapes the executed CRUD property can drive (C05)
	ForeignFileTables bool // foreign keys (and REFERENCES directives) to a table struct declared in the sibling file (not executed: that table is not created)
	SelfFK            bool // tables referencing themselves through a gomacro-sql-foreign tag (not for the executed CRUD property)
	ForeignIDs        bool // foreign keys whose ID type is declared by another package of the module, which ships its own <T>ArrayToPQ helpers (C01 only: the target table is not created by the analysed file)
	MaxTables         int
}

func (o *SQLOpts) gated(f string) bool {
	if id, ok := o.Avoid[f]; ok {
		if o.OnExclude != nil {
			o.OnExclude(id)
		}
		return true
	}
	return false
}

func (o *SQLOpts) class(c string) {
	if o.OnClass != nil {
		o.OnClass(c)
	}
}

var tableWords = []string{"Item", "Client", "Event", "Token", "Ledger", "Entry", "Label", "Point", "Route", "Score", "Phase", "Grade",
	"Color", "Level", "State", "Basket", "Ticket", "Parcel", "Device", "Garden", "Planet", "Camp", "Meal", "Song", "HTTPLog", "APIKey"}

var colWords = []string{"Name", "Value", "Count", "Size", "Title", "Body", "Owner", "Rank", "Width", "Height", "Amount", "Code", "Flag",
	"Note", "Total", "Ratio", "Start", "Stop", "First", "Last", "Inner", "Outer", "Data", "Meta", "Extra", "Path", "Weight", "Speed", "Stock"}

type jsonCol struct {
	Name  string
	Type  *TypeRef
	owner int
}

type sqlGen struct {
	jsonCols []jsonCol
	timeCols map[int][]string // per table index: names of the time.Time columns
	t        *rapid.T
	o        *SQLOpts
	spec     *Spec
	root     *Pkg
	defs     *File
	other    *File
	used     map[string]bool
	tables   []*sqlTable
	// lazily created shared column types
	dateType  string
	stampType string
	enumInt   []string
	enumStr   []string
	arrTypes  map[string]string
	payloads  []string
	helperRaw strings.Builder
	g         *gen // types-profile generator used for payload structs
}

type sqlTable struct {
	d       *Decl
	name    string
	idType  string // "" for link tables, "int64" or local ID type name
	primary bool
}

func (sg *sqlGen) fresh(base string) string {
	name := base
	for i := 2; sg.used[name] || goKeyword(name); i++ {
		name = fmt.Sprintf("%s%d", base, i)
	}
	sg.used[name] = true
	if sg.g != nil {
		sg.g.used(sg.root)[name] = true
	}
	return name
}

func (sg *sqlGen) pick(label string, xs []string) string {
	return xs[rapid.IntRange(0, len(xs)-1).Draw(sg.t, label)]
}

// GenSQL draws a program of the sql profile.
func GenSQL(t *rapid.T, o *SQLOpts) *Spec {
	if o.MaxTables == 0 {
		o.MaxTables = 4
	}
	sg := &sqlGen{t: t, o: o, used: map[string]bool{}, arrTypes: map[string]string{}, timeCols: map[int][]string{}}
	rootName := []string{"models", "store", "tables", "db1"}[rapid.IntRange(0, 3).Draw(t, "sqlPkg")]
	sg.root = &Pkg{Name: rootName, Path: Module + "/" + rootName, Files: []*File{{Name: "defs.go"}, {Name: "other.go"}}}
	sg.defs, sg.other = sg.root.Files[0], sg.root.Files[1]
	sg.spec = &Spec{Pkgs: []*Pkg{sg.root}}
	// payload generator writes into other.go
	sg.g = &gen{t: t, spec: sg.spec, names: map[string]map[string]bool{}, o: &Opts{
		Avoid: o.Avoid, OnExclude: o.OnExclude, OnClass: o.OnClass,
		Unions: 1, FixedArrays: true, Maps: true, Times: true, JSONSafe: true, NoIgnoreTag: true, NoValuerNames: true,
	}}

	nTables := rapid.IntRange(1, o.MaxTables).Draw(t, "nTables")
	// table names first, so that foreign keys can point anywhere (also forward)
	for i := 0; i < nTables; i++ {
		name := sg.pick("tableWord", tableWords)
		if rapid.IntRange(0, 3).Draw(t, "tableTwoWords") == 0 {
			name += sg.pick("tableWord2", tableWords)
		}
		if i > 0 && rapid.IntRange(0, 7).Draw(t, "tableContains") == 0 {
			// a name that contains another table's name as a substring
			name = sg.tables[0].name + sg.pick("tableWord3", tableWords)
			o.class("spelling:table_name_contains_table_name")
		}
		name = sg.fresh(name)
		tb := &sqlTable{name: name, d: &Decl{Kind: KStruct, Name: name}}
		tb.primary = i == 0 || rapid.IntRange(0, 3).Draw(t, "isPrimary") != 0
		if tb.primary {
			tb.idType = "int64"
			if rapid.Bool().Draw(t, "localID") {
				idn := "Id" + name
				if rapid.Bool().Draw(t, "idSuffixForm") {
					idn = name + "ID"
				}
				tb.idType = sg.fresh(idn)
				sg.defs.Decls = append(sg.defs.Decls, &Decl{Kind: KNamed, Name: tb.idType, Type: Basic("int64")})
			}
		}
		sg.tables = append(sg.tables, tb)
	}
	for i, tb := range sg.tables {
		sg.fillTable(i, tb)
		sg.defs.Decls = append(sg.defs.Decls, tb.d)
	}
	if o.ForeignFileTables && rapid.IntRange(0, 2).Draw(t, "foreignFileTable") == 0 {
		// a table struct declared in the sibling file (another model file of the package): the analysed file
		// refers to it by tag, and possibly in an explicit REFERENCES directive
		ext := sg.fresh(sg.pick("foreignFileTableName", []string{"Archive", "Vendor", "Region"}))
		sg.other.Decls = append(sg.other.Decls, &Decl{Kind: KStruct, Name: ext, Fields: []*Field{{Name: "Id", Type: Basic("int64")}, {Name: "Label", Type: Basic("string")}}})
		tb := sg.tables[rapid.IntRange(0, len(sg.tables)-1).Draw(t, "foreignFileTableFrom")]
		has := false
		for _, f := range tb.d.Fields {
			if f.Name == "Id"+ext {
				has = true
			}
		}
		if !has {
			f := &Field{Name: "Id" + ext, Type: Basic("int64"), Tag: fmt.Sprintf(`gomacro-sql-foreign:"%s"`, ext)}
			if rapid.Bool().Draw(t, "foreignFileCascade") {
				f.Tag += ` gomacro-sql-on-delete:"CASCADE"`
			}
			tb.d.Fields = append(tb.d.Fields, f)
			if o.Directives && rapid.Bool().Draw(t, "foreignFileReferences") {
				tb.d.Doc = append(tb.d.Doc, fmt.Sprintf("gomacro:SQL ADD FOREIGN KEY (%s) REFERENCES %s", f.Name, ext))
				o.class("directive:references_struct_of_another_file")
			}
			o.class("sql:fk_to_table_of_another_file")
		}
	}
	if o.Directives && rapid.IntRange(0, 3).Draw(t, "groupTables") == 0 && !o.gated("directive_in_grouped_decl") {
		// grouped type declarations: the directive sits in the TypeSpec's own doc
		n := 0
		for _, d := range sg.defs.Decls {
			if d.Kind == KStruct && n < 3 {
				d.Group = 1
				n++
			}
		}
		// grouped declarations must be consecutive: move them to the end, keeping their order
		var single, grouped []*Decl
		for _, d := range sg.defs.Decls {
			if d.Group == 1 {
				grouped = append(grouped, d)
			} else {
				single = append(single, d)
			}
		}
		sg.defs.Decls = append(single, grouped...)
		o.class("decl:grouped_table_structs")
		if len(grouped) > 0 && rapid.Bool().Draw(t, "groupDoc") {
			// a plain comment above the `type (` line: every struct keeps the directives of its own comment
			grouped[0].GroupDoc = []string{"the tables of this model"}
			o.class("decl:comment_above_type_group")
		}
	}
	if sg.helperRaw.Len() > 0 {
		sg.other.Raw = sg.helperRaw.String()
	}
	if len(sg.other.Decls) == 0 && sg.other.Raw == "" && len(sg.other.Consts) == 0 {
		sg.root.Files = sg.root.Files[:1]
	}
	return sg.spec
}

func (sg *sqlGen) local(name string) *TypeRef { return Ref(sg.root.Path, name) }

// extPkg returns the sibling package holding foreign ID types (created on demand)
func (sg *sqlGen) extPkg() *Pkg {
	if len(sg.spec.Pkgs) > 1 {
		return sg.spec.Pkgs[1]
	}
	name := sg.pick("extPkg", []string{"users", "accounts", "core"})
	p := &Pkg{Name: name, Path: Module + "/" + name, Files: []*File{{Name: name + ".go"}}}
	sg.spec.Pkgs = append(sg.spec.Pkgs, p)
	return p
}

func (sg *sqlGen) colName(used map[string]bool, label string) string {
	for try := 0; ; try++ {
		w := sg.pick(label, colWords)
		if try == 0 && rapid.IntRange(0, 19).Draw(sg.t, label+"Kw") == 0 && !sg.o.gated("keyword_param_name") {
			w = sg.pick(label+"KwW", []string{"Type", "Range", "Func", "Tx", "Item"})
			sg.o.class("spelling:column_lowers_to_keyword_or_param")
		}
		if try > 2 {
			w = fmt.Sprintf("%s%d", w, try)
		}
		isTable := false
		for _, tb := range sg.tables {
			if tb.name == w {
				// a column named like a table struct would be rewritten inside the directives (every whole-word
				// occurrence of a table-struct name is a table reference, by the statement of C16): outside the domain
				isTable = true
			}
		}
		if !used[w] && !isTable {
			used[w] = true
			return w
		}
	}
}

func (sg *sqlGen) ensureEnum(str bool) string {
	t := sg.t
	list := &sg.enumInt
	if str {
		list = &sg.enumStr
	}
	if len(*list) > 0 && rapid.IntRange(0, 2).Draw(t, "reuseEnum") != 0 {
		return (*list)[rapid.IntRange(0, len(*list)-1).Draw(t, "enumPick")]
	}
	name := sg.fresh(sg.pick("sqlEnumName", []string{"Kind", "Status", "Mode", "Tier", "Flavor", "Stage"}))
	base := "string"
	if !str {
		base = sg.pick("sqlEnumBase", []string{"int", "uint8", "int16", "int"})
	}
	d := &Decl{Kind: KEnum, Name: name, Type: Basic(base)}
	sg.defs.Decls = append(sg.defs.Decls, d)
	n := rapid.IntRange(1, 4).Draw(t, "sqlEnumN")
	blk := &Block{Grouped: true}
	for i := 0; i < n; i++ {
		cn := sg.fresh(name + string(rune('A'+i)))
		cs := &ConstSpec{Names: []string{cn}, OfType: []string{name}}
		if str {
			v := fmt.Sprintf("%q", sg.pick("sqlEnumStr", []string{"red", "blue", "on", "off", "x y", "UP"})+fmt.Sprint(i))
			if len(sg.tables) > 0 && rapid.IntRange(0, 4).Draw(t, "sqlEnumTableWord") == 0 {
				// a value that spells (or contains as a whole word) the Go name of a table struct
				tn := sg.tables[rapid.IntRange(0, len(sg.tables)-1).Draw(t, "sqlEnumTable")].name
				if i == 0 {
					v = fmt.Sprintf("%q", tn)
				} else {
					v = fmt.Sprintf("%q", fmt.Sprintf("%s %d", tn, i))
				}
				sg.o.class("enum:string_value_spells_table_name")
			}
			if i == 1 && rapid.IntRange(0, 5).Draw(t, "sqlEnumQuote") == 0 && !sg.o.gated("enum_string_quote") {
				v = `"it's"`
				sg.o.class("enum:string_with_single_quote")
			}
			if i == 2 && rapid.IntRange(0, 2).Draw(t, "sqlEnumBackslash") == 0 {
				v = `"a\\b"` // a backslash is an ordinary character inside '...' (standard_conforming_strings)
				sg.o.class("enum:string_with_backslash")
			}
			cs.Type, cs.Exprs, cs.Vals = name, []string{v}, []string{v}
		} else {
			if i == 0 {
				cs.Type, cs.Exprs = name, []string{"iota"}
			}
			cs.Vals = []string{fmt.Sprint(i)}
		}
		blk.Specs = append(blk.Specs, cs)
	}
	if !str && rapid.IntRange(0, 3).Draw(t, "sqlEnumUnexp") == 0 {
		cn := sg.fresh(strings.ToLower(name[:1]) + name[1:] + "Hidden")
		blk.Specs = append(blk.Specs, &ConstSpec{Names: []string{cn}, OfType: []string{name}, Vals: []string{fmt.Sprint(n)}})
		sg.o.class("enum:unexported_member_last")
	}
	sg.defs.Consts = append(sg.defs.Consts, blk)
	*list = append(*list, name)
	return name
}

func (sg *sqlGen) ensureArray(elem string, fixed int) string {
	key := fmt.Sprintf("%s/%d", elem, fixed)
	if n, ok := sg.arrTypes[key]; ok {
		return n
	}
	base := strings.Title(strings.ReplaceAll(elem, ".", ""))
	name := sg.fresh(base + "List")
	tr := Slice(Basic(elem))
	if fixed > 0 {
		name = sg.fresh(fmt.Sprintf("%sFix%d", base, fixed))
		delete(sg.used, base+"List")
		tr = Array(fixed, Basic(elem))
	}
	if !isBasicName(elem) {
		if fixed > 0 {
			tr = Array(fixed, sg.local(elem))
		} else {
			tr = Slice(sg.local(elem))
		}
	}
	sg.defs.Decls = append(sg.defs.Decls, &Decl{Kind: KNamed, Name: name, Type: tr})
	sg.arrTypes[key] = name
	return name
}

func isBasicName(s string) bool {
	switch s {
	case "bool", "int", "int8", "int16", "int32", "int64", "uint", "uint8", "uint16", "uint32", "uint64", "float32", "float64", "string", "byte":
		return true
	}
	return false
}

func (sg *sqlGen) ensureDate() string {
	if sg.dateType == "" {
		sg.dateType = sg.fresh("Date")
		sg.other.Decls = append(sg.other.Decls, &Decl{Kind: KNamed, Name: sg.dateType, Type: Std("time", "Time"), TimeLike: true})
		sg.helperRaw.WriteString(fmt.Sprintf(`//import "time"

func NewDateFrom(t time.Time) %[1]s {
	y, m, d := t.Date()
	return %[1]s(time.Date(y, m, d, 0, 0, 0, 0, time.UTC))
}

func (d %[1]s) Time() time.Time { return time.Time(d) }
`, sg.dateType))
	}
	return sg.dateType
}

func (sg *sqlGen) ensureStamp() string {
	if sg.stampType == "" {
		sg.stampType = sg.fresh("Stamp")
		sg.other.Decls = append(sg.other.Decls, &Decl{Kind: KNamed, Name: sg.stampType, Type: Std("time", "Time"), TimeLike: true})
	}
	return sg.stampType
}

func (sg *sqlGen) ensureComposite() string {
	t := sg.t
	name := sg.fresh(sg.pick("compName", []string{"Pair", "Triple", "Coord", "Span"}))
	d := &Decl{Kind: KStruct, Name: name}
	n := rapid.IntRange(1, 3).Draw(t, "compN")
	for i := 0; i < n; i++ {
		ft := Basic(sg.pick("compBase", []string{"int", "uint8", "int64", "int16", "int32"}))
		if rapid.IntRange(0, 4).Draw(t, "compEnum") == 0 {
			ft = sg.local(sg.ensureEnum(false))
		}
		d.Fields = append(d.Fields, &Field{Name: string(rune('A' + i)), Type: ft})
	}
	if rapid.IntRange(0, 1).Draw(t, "compUnexported") == 0 {
		// an unexported integer field is an attribute of the composite type like the others
		pos := rapid.IntRange(0, len(d.Fields)).Draw(t, "compUnexportedPos")
		hiddenType := "int"
		if rapid.IntRange(0, 3).Draw(t, "compLookalike") == 0 {
			// one unexported field that is not an integer: the struct is not a composite any more (stored as jsonb)
			hiddenType = "string"
			sg.o.class("sql:composite_lookalike_with_unexported_string")
		} else {
			sg.o.class("sql:composite_with_unexported_field")
		}
		d.Fields = append(d.Fields[:pos], append([]*Field{{Name: "hidden", Type: Basic(hiddenType)}}, d.Fields[pos:]...)...)
	}
	sg.other.Decls = append(sg.other.Decls, d)
	return name
}

// ensurePayload declares (in other.go) a struct that is stored as jsonb, using the types-profile generator.
func (sg *sqlGen) ensurePayload() (name string, hasUnion bool) {
	g := sg.g
	// a few supporting declarations then the payload itself
	n := rapid.IntRange(0, 3).Draw(sg.t, "payloadSupport")
	for i := 0; i < n; i++ {
		switch rapid.IntRange(0, 3).Draw(sg.t, "payloadSupportKind") {
		case 0:
			g.addStruct(sg.root, sg.other, true)
		case 1:
			g.addEnum(sg.root, sg.other, sg.other)
		case 2:
			g.addNamed(sg.root, sg.other)
		case 3:
			g.addUnion(sg.root, sg.other)
		}
	}
	for {
		ti := g.addStruct(sg.root, sg.other, true)
		// a payload must not be a composite (all-integer struct) nor a nullable look-alike
		nonInt := false
		for _, f := range ti.d.Fields {
			if f.Type.K != TBasic || !isIntKind(f.Type.Name) {
				nonInt = true
			}
		}
		if !nonInt || len(ti.d.Fields) == 0 {
			ti.d.Fields = append(ti.d.Fields, &Field{Name: "Descr", Type: Basic("string")})
		}
		if len(ti.d.Fields) == 2 {
			for _, f := range ti.d.Fields {
				if f.Name == "Valid" {
					f.Name = "IsValid"
				}
			}
		}
		if rapid.IntRange(0, 3).Draw(sg.t, "iotaEnumWithAlias") == 0 {
			// a plain iota enum that also has an unexported constant repeating a value (const defaultLevel = Medium):
			// still iota-like (the exported members are 0,1,2), one more member than values
			has := false
			for _, f := range ti.d.Fields {
				if f.Name == "Level" {
					has = true
				}
			}
			if !has {
				for k := range g.used(sg.root) {
					sg.used[k] = true
				}
				en := sg.fresh(sg.pick("aliasEnumName", []string{"Level", "Grade", "Rank"}) + "Kind")
				g.used(sg.root)[en] = true
				n := rapid.IntRange(2, 4).Draw(sg.t, "aliasEnumN")
				blk := &Block{Grouped: true}
				for i := 0; i < n; i++ {
					cs := &ConstSpec{Names: []string{fmt.Sprintf("%s%c", en, 'A'+i)}, OfType: []string{en}, Vals: []string{fmt.Sprint(i)}}
					if i == 0 {
						cs.Type, cs.Exprs = en, []string{"iota"}
					}
					sg.used[cs.Names[0]] = true
					g.used(sg.root)[cs.Names[0]] = true
					blk.Specs = append(blk.Specs, cs)
				}
				dup := rapid.IntRange(0, n-1).Draw(sg.t, "aliasEnumDup")
				alias := "default" + en
				sg.other.Decls = append(sg.other.Decls, &Decl{Kind: KEnum, Name: en, Type: Basic("int")})
				sg.other.Consts = append(sg.other.Consts, blk, &Block{Grouped: false, Specs: []*ConstSpec{{
					Names: []string{alias}, Exprs: []string{blk.Specs[dup].Names[0]}, Vals: []string{fmt.Sprint(dup)}, OfType: []string{en}}}})
				ti.d.Fields = append(ti.d.Fields, &Field{Name: "Level", Type: Ref(sg.root.Path, en)})
				sg.o.class("json:iota_enum_with_unexported_duplicate")
			}
		}
		if sg.o.PayloadEmbeds && rapid.IntRange(0, 2).Draw(sg.t, "payloadEmbed") == 0 {
			// a flattened embedded struct in the stored document: untagged, or with a tag made of options only
			has := map[string]bool{}
			for _, f := range ti.d.Fields {
				has[f.Name] = true
			}
			if !has["Zauthor"] && !has["Zrev"] {
				for k := range g.used(sg.root) {
					sg.used[k] = true
				}
				in := sg.fresh(sg.pick("payloadEmbedName", []string{"Meta", "Audit", "Stamp"}) + "Info")
				g.used(sg.root)[in] = true
				sg.other.Decls = append(sg.other.Decls, &Decl{Kind: KStruct, Name: in, Fields: []*Field{{Name: "Zauthor", Type: Basic("string")}, {Name: "Zrev", Type: Basic("int")}}})
				emb := &Field{Name: in, Type: Ref(sg.root.Path, in), Embedded: true}
				if rapid.Bool().Draw(sg.t, "payloadEmbedOptTag") {
					emb.Tag = `json:",omitempty"`
				}
				ti.d.Fields = append(ti.d.Fields, emb)
				sg.o.class("json:embedded_struct_in_document")
			}
		}
		if rapid.IntRange(0, 4).Draw(sg.t, "nestedBothWays") == 0 {
			// the two nestings of a fixed array and a slice over one element type, in one document
			has := map[string]bool{}
			for _, f := range ti.d.Fields {
				has[f.Name] = true
			}
			if !has["GridA"] && !has["GridB"] {
				e := Basic(sg.pick("nestedElem", []string{"int", "string", "bool", "float64"}))
				n := rapid.IntRange(1, 3).Draw(sg.t, "nestedLen")
				ti.d.Fields = append(ti.d.Fields, &Field{Name: "GridA", Type: Array(n, Slice(e))}, &Field{Name: "GridB", Type: Slice(Array(n, e))})
				sg.o.class("json:fixed_array_and_slice_nested_both_ways")
			}
		}
		if rapid.IntRange(0, 2).Draw(sg.t, "memberBeforeUnion") == 0 {
			// a union member used on its own before the union that contains it, in one document
			var us []*tinfo
			for _, x := range g.types {
				if x.cat == "union" && x.pkg == sg.root {
					us = append(us, x)
				}
			}
			has := map[string]bool{}
			for _, f := range ti.d.Fields {
				has[f.Name] = true
			}
			if len(us) > 0 && !has["Preferred"] && !has["Shapes"] {
				u := us[rapid.IntRange(0, len(us)-1).Draw(sg.t, "mbuUnion")]
				var members []string
				if ur := sg.spec.Unions()[sg.root.Path][u.d.Name]; ur != nil {
					for _, m := range ur.Members {
						if _, md := sg.spec.Resolve(sg.root, Ref(sg.root.Path, m)); md != nil && md.Kind == KStruct {
							members = append(members, m)
						}
					}
				}
				if len(members) > 0 {
					m := members[rapid.IntRange(0, len(members)-1).Draw(sg.t, "mbuMember")]
					ti.d.Fields = append([]*Field{{Name: "Preferred", Type: Ref(sg.root.Path, m)}}, ti.d.Fields...)
					// (anonymous slices of unions are refused by gounions: the slice is a named type)
					for k := range g.used(sg.root) {
						sg.used[k] = true
					}
					ln := sg.fresh(u.d.Name + "Seq")
					g.used(sg.root)[ln] = true
					sg.defs.Decls = append(sg.defs.Decls, &Decl{Kind: KNamed, Name: ln, Type: Slice(Ref(sg.root.Path, u.d.Name))})
					ti.d.Fields = append(ti.d.Fields, &Field{Name: "Shapes", Type: Ref(sg.root.Path, ln)})
					ti.hasUnion = true
					sg.o.class("json:union_member_used_before_its_union")
				}
			}
		}
		for k := range g.used(sg.root) {
			sg.used[k] = true
		}
		return ti.d.Name, ti.hasUnion
	}
}

func (sg *sqlGen) fillTable(idx int, tb *sqlTable) {
	t := sg.t
	o := sg.o
	used := map[string]bool{"Id": true, "ID": true}
	d := tb.d
	if tb.primary {
		idName := "Id"
		if rapid.IntRange(0, 5).Draw(t, "idSpelling") == 0 && !o.gated("primary_field_spelled_ID") {
			idName = "ID"
			o.class("spelling:primary_field_ID")
		}
		idt := Basic("int64")
		if tb.idType != "int64" {
			idt = sg.local(tb.idType)
		}
		idField := &Field{Name: idName, Type: idt}
		if rapid.Bool().Draw(t, "idFirst") {
			d.Fields = append(d.Fields, idField)
		} else {
			defer func() {
				// id in the middle / at the end
				pos := rapid.IntRange(0, len(d.Fields)).Draw(t, "idPos")
				d.Fields = append(d.Fields[:pos], append([]*Field{idField}, d.Fields[pos:]...)...)
			}()
		}
	}
	// foreign keys
	var others []*sqlTable
	for j, ot := range sg.tables {
		if j != idx && ot.primary {
			others = append(others, ot)
		}
	}
	nFK := 0
	if len(others) > 0 {
		nFK = rapid.IntRange(0, 2).Draw(t, "nFK")
	}
	if !tb.primary && nFK == 0 && len(others) > 0 {
		nFK = 1
	}
	if !tb.primary && len(others) == 0 {
		// a link table needs a target: degrade to a primary table (link tables without foreign key are outside the domain)
		tb.primary, tb.idType = true, "int64"
		d.Fields = append(d.Fields, &Field{Name: "Id", Type: Basic("int64")})
	}
	var fkFields []string
	nullableFK := map[string]bool{}
	for k := 0; k < nFK; k++ {
		target := others[rapid.IntRange(0, len(others)-1).Draw(t, "fkTarget")]
		fname := "Id" + target.name
		if used[fname] {
			fname = fmt.Sprintf("Id%s%d", target.name, k+2)
		}
		used[fname] = true
		f := &Field{Name: fname}
		nullable := false
		switch rapid.IntRange(0, 4).Draw(t, "fkForm") {
		case 0, 1: // by ID type / int64 + tag
			if target.idType != "int64" {
				f.Type = sg.local(target.idType)
			} else {
				f.Type = Basic("int64")
				f.Tag = fmt.Sprintf(`gomacro-sql-foreign:"%s"`, target.name)
			}
		case 2:
			f.Type = Basic("int64")
			f.Tag = fmt.Sprintf(`gomacro-sql-foreign:"%s"`, target.name)
			if target.idType != "int64" {
				// an int64 column pointing at a table with a local ID type is legal SQL-wise
				o.class("sql:fk_int64_to_local_id_table")
			}
		case 3: // sql.NullInt64
			f.Type = Std("database/sql", "NullInt64")
			f.Tag = fmt.Sprintf(`gomacro-sql-foreign:"%s"`, target.name)
			nullable = true
			o.class("sql:fk_sql_nullint64")
		case 4: // local wrapper
			wn := sg.fresh("Opt" + target.name)
			idt := Basic("int64")
			if target.idType != "int64" {
				idt = sg.local(target.idType)
			}
			fields := []*Field{{Name: "Valid", Type: Basic("bool")}, {Name: "ID", Type: idt}}
			if rapid.Bool().Draw(t, "wrapperOrder") {
				fields[0], fields[1] = fields[1], fields[0]
			}
			sg.other.Decls = append(sg.other.Decls, &Decl{Kind: KStruct, Name: wn, Fields: fields})
			f.Type = sg.local(wn)
			f.Tag = fmt.Sprintf(`gomacro-sql-foreign:"%s"`, target.name)
			nullable = true
			o.class("sql:fk_local_nullable_wrapper")
		}
		switch rapid.IntRange(0, 5).Draw(t, "onDelete") {
		case 0:
			f.Tag = strings.TrimSpace(f.Tag + ` gomacro-sql-on-delete:"CASCADE"`)
			o.class("sql:on_delete_cascade")
		case 1:
			if nullable {
				f.Tag = strings.TrimSpace(f.Tag + ` gomacro-sql-on-delete:"SET NULL"`)
				o.class("sql:on_delete_set_null")
			}
		}
		if rapid.IntRange(0, 3).Draw(t, "fkJSONTag") == 0 {
			f.Tag = strings.TrimSpace(fmt.Sprintf(`json:"%s" `, snake(fname)) + f.Tag)
		}
		d.Fields = append(d.Fields, f)
		fkFields = append(fkFields, fname)
		nullableFK[fname] = nullable
	}
	if o.SelfFK && tb.primary && !used["Parent"] && rapid.IntRange(0, 4).Draw(t, "selfFK") == 0 {
		// a table referencing itself (only possible through the tag: the table's own ID type is not a foreign key)
		used["Parent"] = true
		f := &Field{Name: "Parent", Tag: fmt.Sprintf(`gomacro-sql-foreign:"%s"`, tb.name)}
		switch rapid.IntRange(0, 2).Draw(t, "selfFKForm") {
		case 0:
			f.Type = Std("database/sql", "NullInt64")
			f.Tag += ` gomacro-sql-on-delete:"SET NULL"`
		case 1:
			f.Type = Std("database/sql", "NullInt64")
		default:
			f.Type = Basic("int64")
			f.Tag += ` gomacro-sql-on-delete:"CASCADE"`
		}
		d.Fields = append(d.Fields, f)
		o.class("sql:self_referencing_foreign_key")
	}
	if o.ForeignIDs && rapid.IntRange(0, 2).Draw(t, "foreignPkgID") == 0 {
		// a key into a table of another package: the ID type (and its array helpers) live there
		ext := sg.extPkg()
		word := sg.pick("extTable", []string{"User", "Account", "Tenant"})
		idn := "Id" + word
		if sg.g.names[ext.Path] == nil {
			sg.g.names[ext.Path] = map[string]bool{}
		}
		if !sg.g.names[ext.Path][idn] {
			sg.g.names[ext.Path][idn] = true
			ext.Files[0].Decls = append(ext.Files[0].Decls, &Decl{Kind: KNamed, Name: idn, Type: Basic("int64")})
			ext.Files[0].Raw += fmt.Sprintf(`//import "github.com/lib/pq"

func %[1]sArrayToPQ(ids []%[1]s) pq.Int64Array {
	out := make(pq.Int64Array, len(ids))
	for i, v := range ids {
		out[i] = int64(v)
	}
	return out
}
`, idn)
		}
		fname := idn
		if !used[fname] && !sg.used[word] {
			used[fname] = true
			f := &Field{Name: fname, Type: Ref(ext.Path, idn)}
			if rapid.Bool().Draw(t, "foreignPkgCascade") {
				f.Tag = `gomacro-sql-on-delete:"CASCADE"`
			}
			d.Fields = append(d.Fields, f)
			o.class("sql:fk_id_type_of_other_package")
		}
	}
	// regular columns
	nCols := rapid.IntRange(1, 6).Draw(t, "nCols")
	var plainCols []string // columns usable in UNIQUE / select keys / queries (simple comparable scalars)
	hasJSON := false
	lastArrElem, lastArrFixed := "", 0
	for k := 0; k < nCols; k++ {
		name := sg.colName(used, "colName")
		f := &Field{Name: name}
		kinds := []string{"bool", "int", "int64", "int32", "int16", "uint8", "float64", "string", "string", "int", "time", "date", "stamp", "bytes",
			"arr", "fixarr", "enumint", "enumstr", "enumarr", "composite", "json", "jsonmap", "jsonslice", "nullstring", "nulltime", "int8", "float32", "uint16"}
		kind := sg.pick("colKind", kinds)
		if o.NoJSON && strings.HasPrefix(kind, "json") {
			kind = "string"
		}
		if o.JSONHeavy && !hasJSON && k == nCols-1 {
			kind = sg.pick("jsonKind", []string{"json", "jsonmap", "jsonslice"})
		}
		if strings.HasPrefix(kind, "json") && len(sg.jsonCols) > 0 && rapid.IntRange(0, 2).Draw(t, "sameJSONColumn") == 0 {
			// the same column (name and type) as a jsonb column of an earlier table
			prev := sg.jsonCols[rapid.IntRange(0, len(sg.jsonCols)-1).Draw(t, "sameJSONColumnOf")]
			if !used[prev.Name] && prev.owner != idx {
				used[prev.Name] = true
				f.Name, name = prev.Name, prev.Name
				f.Type = prev.Type
				kind = "samejson"
				hasJSON = true
				o.class("sql:jsonb_column_shared_by_two_tables")
			}
		}
		switch kind {
		case "bool", "int", "int64", "int32", "int16", "uint8", "float64", "string", "int8", "float32", "uint16":
			f.Type = Basic(kind)
			if kind != "float64" && kind != "float32" {
				plainCols = append(plainCols, name)
			}
		case "time":
			f.Type = Std("time", "Time")
			sg.timeCols[idx] = append(sg.timeCols[idx], name)
		case "date":
			f.Type = sg.local(sg.ensureDate())
		case "stamp":
			f.Type = sg.local(sg.ensureStamp())
		case "bytes":
			bn := "Blob"
			if !sg.used["Blob"] {
				sg.fresh("Blob")
				sg.defs.Decls = append(sg.defs.Decls, &Decl{Kind: KNamed, Name: "Blob", Type: Slice(Basic("byte"))})
			}
			// []byte columns may be anonymous (bytea needs no converter); byte and uint8 are two spellings of one type
			switch rapid.IntRange(0, 4).Draw(t, "bytesForm") {
			case 0, 1:
				f.Type = Slice(Basic("byte"))
			case 2:
				f.Type = Slice(Basic("uint8"))
				o.class("sql:bytes_spelled_uint8")
			case 3:
				if !sg.used["Digest"] {
					sg.fresh("Digest")
					sg.defs.Decls = append(sg.defs.Decls, &Decl{Kind: KNamed, Name: "Digest", Type: Slice(Basic("uint8"))})
				}
				f.Type = sg.local("Digest")
				o.class("sql:bytes_spelled_uint8")
			default:
				f.Type = sg.local(bn)
			}
		case "arr", "fixarr":
			elems := []string{"int64", "int32", "float64", "string", "bool"}
			if !o.gated("array_elem_not_pq_native") {
				elems = append(elems, "int", "int16", "uint8", "float32")
			}
			e := sg.pick("arrElem", elems)
			fixed := 0
			if kind == "fixarr" {
				fixed = rapid.IntRange(1, 5).Draw(t, "fixLen")
			}
			if e == "uint8" && fixed == 0 {
				e = "int64" // []uint8 is bytea, covered by "bytes"
			}
			if e == "uint8" && fixed > 0 && o.gated("fixed_byte_array_column") {
				e = "int32"
			}
			if rapid.IntRange(0, 5).Draw(t, "arrOfNamedBasic") == 0 {
				// a list of a named basic type that is not an enum (ID types): stored as jsonb, not as an SQL array
				var ids []string
				for _, ot := range sg.tables {
					if ot.idType != "" && ot.idType != "int64" {
						ids = append(ids, ot.idType)
					}
				}
				if len(ids) > 0 {
					e = ids[rapid.IntRange(0, len(ids)-1).Draw(t, "arrOfNamedBasicType")]
					hasJSON = true
					o.class("sql:list_of_named_basic_is_jsonb")
				}
			}
			f.Type = sg.local(sg.ensureArray(e, fixed))
			if isBasicName(e) {
				lastArrElem, lastArrFixed = e, fixed
			}
		case "enumint":
			f.Type = sg.local(sg.ensureEnum(false))
			plainCols = append(plainCols, name)
		case "enumstr":
			f.Type = sg.local(sg.ensureEnum(true))
			plainCols = append(plainCols, name)
		case "enumarr":
			if o.gated("array_elem_not_pq_native") {
				// []<int enum> converts element-wise and is fine; fixed arrays of enums are not
				f.Type = sg.local(sg.ensureArray(sg.ensureEnum(false), 0))
			} else {
				f.Type = sg.local(sg.ensureArray(sg.ensureEnum(false), rapid.IntRange(0, 3).Draw(t, "enumArrFix")))
			}
		case "composite":
			f.Type = sg.local(sg.ensureComposite())
		case "json":
			pn, _ := sg.ensurePayload()
			f.Type = sg.local(pn)
			hasJSON = true
		case "jsonmap":
			pn, _ := sg.ensurePayload()
			mn := sg.fresh(pn + "Dict")
			sg.defs.Decls = append(sg.defs.Decls, &Decl{Kind: KNamed, Name: mn, Type: Map(Basic("string"), sg.local(pn))})
			f.Type = sg.local(mn)
			hasJSON = true
		case "jsonslice":
			var elem *TypeRef
			switch rapid.IntRange(0, 2).Draw(t, "jsonSliceElem") {
			case 0:
				pn, _ := sg.ensurePayload()
				elem = sg.local(pn)
			case 1:
				elem = sg.local(sg.ensureEnum(true)) // slices of non-integer enums are stored as JSON
			default:
				u := sg.g.addUnion(sg.root, sg.other)
				for k := range sg.g.used(sg.root) {
					sg.used[k] = true
				}
				elem = sg.local(u.d.Name)
			}
			ln := sg.fresh(elem.Name + "Seq")
			sg.defs.Decls = append(sg.defs.Decls, &Decl{Kind: KNamed, Name: ln, Type: Slice(elem)})
			f.Type = sg.local(ln)
			hasJSON = true
		case "nullstring":
			f.Type = Std("database/sql", "NullString")
		case "nulltime":
			f.Type = Std("database/sql", "NullTime")
		}
		if rapid.IntRange(0, 3).Draw(t, "colTag") == 0 {
			f.Tag = fmt.Sprintf(`json:"%s"`, snake(name))
			if rapid.IntRange(0, 2).Draw(t, "colTagOtherSpelling") == 0 {
				// a JSON name that is not the column name, even up to case: SQL names come from the Go field
				f.Tag = fmt.Sprintf(`json:"j_%s"`, snake(name))
				o.class("sql:column_json_name_differs_from_field_name")
			}
		}
		d.Fields = append(d.Fields, f)
		if strings.HasPrefix(kind, "json") {
			sg.jsonCols = append(sg.jsonCols, jsonCol{Name: f.Name, Type: f.Type, owner: idx})
		}
	}
	if lastArrElem != "" && rapid.IntRange(0, 2).Draw(t, "siblingArray") == 0 {
		// a second named array type with the same SQL type as the first one (a slice next to a fixed array)
		other := 0
		if lastArrFixed == 0 {
			other = rapid.IntRange(1, 4).Draw(t, "siblingArrayLen")
		}
		if !(lastArrElem == "uint8" && (other == 0 || o.gated("fixed_byte_array_column"))) {
			name := sg.colName(used, "siblingArrayName")
			d.Fields = append(d.Fields, &Field{Name: name, Type: sg.local(sg.ensureArray(lastArrElem, other))})
			o.class("sql:two_array_types_with_one_sql_type")
		}
	}
	// an unexported field that is not a guard: not a column at all, wherever it stands (also before the id)
	if rapid.IntRange(0, 4).Draw(t, "unexportedPlain") == 0 {
		uf := &Field{Name: "cache", Type: Basic(sg.pick("unexportedPlainType", []string{"string", "int", "bool"}))}
		defer func() {
			pos := rapid.IntRange(0, len(d.Fields)).Draw(t, "unexportedPlainPos")
			d.Fields = append(d.Fields[:pos], append([]*Field{uf}, d.Fields[pos:]...)...)
		}()
		o.class("sql:unexported_non_column_field")
	}
	// guard
	if rapid.IntRange(0, 4).Draw(t, "guard") == 0 {
		en := sg.ensureEnum(rapid.IntRange(0, 3).Draw(t, "guardStr") == 0 && !o.gated("string_enum_placeholder"))
		var first string
		for _, b := range sg.defs.Consts {
			for _, cs := range b.Specs {
				if cs.OfType[0] == en && first == "" {
					first = cs.Names[0]
				}
			}
		}
		gf := &Field{Name: "guard", Type: sg.local(en), Tag: fmt.Sprintf(`gomacro-sql-guard:"#[%s.%s]"`, en, first)}
		pos := rapid.IntRange(0, len(d.Fields)).Draw(t, "guardPos")
		d.Fields = append(d.Fields[:pos], append([]*Field{gf}, d.Fields[pos:]...)...)
		o.class("sql:guard_column")
	}
	// directives
	if rapid.IntRange(0, 2).Draw(t, "uniqueDirective") == 0 && len(plainCols)+len(fkFields) > 0 {
		all := append(append([]string{}, fkFields...), plainCols...)
		n := rapid.IntRange(1, min(3, len(all))).Draw(t, "uniqueN")
		cols := pickDistinct(t, all, n, "uniqueCol")
		kw := "UNIQUE"
		if !tb.primary && rapid.Bool().Draw(t, "primaryKeyDirective") {
			kw = "PRIMARY KEY"
			for _, cn := range cols {
				if nullableFK[cn] {
					kw = "UNIQUE" // a primary key column cannot be NULL
				}
			}
		}
		sep := sg.pick("uniqueSep", []string{"(", " ("})
		pad := ""
		if rapid.IntRange(0, 4).Draw(t, "uniquePad") == 0 {
			pad = " " // ADD UNIQUE( a, b )
			o.class("directive:padded_column_list")
		}
		d.Doc = append(d.Doc, fmt.Sprintf("gomacro:SQL ADD %s%s%s%s%s)", kw, sep, pad, strings.Join(cols, ", "), pad))
		o.class("directive:" + strings.ToLower(strings.ReplaceAll(kw, " ", "_")))
		// a second, different UNIQUE constraint on plain columns of the same table
		if kw == "UNIQUE" && len(plainCols) >= 2 && rapid.IntRange(0, 2).Draw(t, "secondUnique") == 0 {
			second := pickDistinct(t, plainCols, rapid.IntRange(1, 2).Draw(t, "secondUniqueN"), "secondUniqueCol")
			if strings.Join(second, ",") != strings.Join(cols, ",") {
				d.Doc = append(d.Doc, fmt.Sprintf("gomacro:SQL ADD UNIQUE(%s)", strings.Join(second, ", ")))
				o.class("directive:two_unique_constraints")
			}
		}
	}
	if rapid.IntRange(0, 3).Draw(t, "selectKeyDirective") == 0 && len(plainCols) > 0 {
		n := rapid.IntRange(1, min(2, len(plainCols))).Draw(t, "selectKeyN")
		cols := pickDistinct(t, plainCols, n, "selectKeyCol")
		pad := ""
		if rapid.IntRange(0, 4).Draw(t, "selectKeyPad") == 0 {
			pad = " "
			o.class("directive:padded_column_list")
		}
		d.Doc = append(d.Doc, fmt.Sprintf("gomacro:SQL _SELECT KEY(%s%s%s)", pad, strings.Join(cols, ", "), pad))
		o.class("directive:select_key")
	}
	if o.Directives {
		sg.addDirectives(idx, tb, plainCols, fkFields)
	}
	if o.PlainQueries && !o.Directives && len(plainCols) >= 1 && rapid.Bool().Draw(t, "plainQuery") {
		// custom queries over simple scalar columns, executed by C05
		setCol := plainCols[rapid.IntRange(0, len(plainCols)-1).Draw(t, "plainQuerySet")]
		whereCol := plainCols[rapid.IntRange(0, len(plainCols)-1).Draw(t, "plainQueryWhere")]
		fn := sg.fresh("Query" + tb.name + setCol)
		if rapid.IntRange(0, 2).Draw(t, "plainQueryDelete") == 0 {
			d.Doc = append(d.Doc, fmt.Sprintf("gomacro:QUERY %s DELETE FROM %s WHERE %s = $key$;", fn, tb.name, whereCol))
		} else {
			d.Doc = append(d.Doc, fmt.Sprintf("gomacro:QUERY %s UPDATE %s SET %s = $newValue$ WHERE %s = $selectV$ ;", fn, tb.name, setCol, whereCol))
		}
		o.class("directive:custom_query")
	}
	if rapid.IntRange(0, 2).Draw(t, "plainDoc") == 0 {
		d.Doc = append([]string{tb.name + " is a table."}, d.Doc...)
	}
}

// DirectiveInfo is the reference model of the directives written on a table struct (for C16).
type QueryRef struct {
	Func   string
	Raw    string   // the query text as written in the comment (after the function name)
	Params []string // distinct placeholder names in first-occurrence order
	Fields []string // for each param, the Go field it is compared with
}

func (sg *sqlGen) fieldOf(d *Decl, name string) *Field {
	for _, f := range d.Fields {
		if f.Name == name {
			return f
		}
	}
	return nil
}

func (sg *sqlGen) addDirectives(idx int, tb *sqlTable, plainCols, fkFields []string) {
	t := sg.t
	o := sg.o
	d := tb.d
	// a CHECK with enum placeholders on an enum column
	for _, f := range d.Fields {
		if f.Type.K != TRef || f.Name == "guard" {
			continue
		}
		isInt, isStr := false, false
		for _, e := range sg.enumInt {
			if e == f.Type.Name {
				isInt = true
			}
		}
		for _, e := range sg.enumStr {
			if e == f.Type.Name {
				isStr = true
			}
		}
		if !(isInt || isStr) || rapid.IntRange(0, 1).Draw(t, "enumCheck") != 0 {
			continue
		}
		if isStr && o.gated("string_enum_placeholder") {
			continue
		}
		var consts []string
		for _, b := range sg.defs.Consts {
			for _, cs := range b.Specs {
				if cs.OfType[0] == f.Type.Name && cs.Names[0][0] >= 'A' && cs.Names[0][0] <= 'Z' {
					consts = append(consts, cs.Names[0])
				}
			}
		}
		if len(consts) == 0 {
			continue
		}
		var parts []string
		n := rapid.IntRange(1, min(3, len(consts))).Draw(t, "enumCheckN")
		for _, cn := range pickDistinct(t, consts, n, "enumCheckConst") {
			parts = append(parts, fmt.Sprintf("%s = #[%s.%s]", f.Name, f.Type.Name, cn))
		}
		d.Doc = append(d.Doc, "gomacro:SQL ADD CHECK ("+strings.Join(parts, " OR ")+")")
		o.class("directive:check_with_enum_placeholder")
		break
	}
	// a free-standing statement mentioning the table struct by its Go name, next to words that merely contain it
	if len(plainCols) > 0 && rapid.IntRange(0, 2).Draw(t, "indexDirective") == 0 {
		col := plainCols[rapid.IntRange(0, len(plainCols)-1).Draw(t, "indexCol")]
		idxName := sg.pick("indexName", []string{"idx_" + tb.name, tb.name + "_idx", "index_" + strings.ToLower(tb.name), tb.name + "Index", "ix1"})
		d.Doc = append(d.Doc, fmt.Sprintf("gomacro:SQL CREATE INDEX %s ON %s (%s)", idxName, tb.name, col))
		o.class("directive:free_standing_statement")
	}
	// an explicit FOREIGN KEY naming another table struct after REFERENCES
	if len(fkFields) > 0 && rapid.IntRange(0, 3).Draw(t, "refDirective") == 0 {
		fk := fkFields[0]
		target := ""
		for _, ot := range sg.tables {
			if fk == "Id"+ot.name {
				target = ot.name
			}
		}
		if target != "" {
			act := sg.pick("refAction", []string{"", " ON DELETE CASCADE", " ON DELETE SET NULL"})
			d.Doc = append(d.Doc, fmt.Sprintf("gomacro:SQL ADD FOREIGN KEY (%s) REFERENCES %s%s", fk, target, act))
			o.class("directive:references_struct_name")
		}
	}
	// custom queries
	if len(plainCols) >= 1 && rapid.IntRange(0, 1).Draw(t, "queryDirective") == 0 {
		all := append(append([]string{}, plainCols...), fkFields...)
		all = append(all, sg.timeCols[idx]...) // a time.Time column may be compared with a placeholder as well
		setCol := all[rapid.IntRange(0, len(all)-1).Draw(t, "querySet")]
		whereCol := all[rapid.IntRange(0, len(all)-1).Draw(t, "queryWhere")]
		fn := sg.fresh("Query" + tb.name + setCol)
		var q string
		switch rapid.IntRange(0, 5).Draw(t, "queryShape") {
		case 0:
			q = fmt.Sprintf("UPDATE %s SET %s = $newValue$ WHERE %s = $selectV$ ;", tb.name, setCol, whereCol)
		case 1:
			// the same placeholder twice (compared with fields of the same type)
			q = fmt.Sprintf("UPDATE %s SET %s = $v$ WHERE %s = $v$ OR %s = $w$;", tb.name, setCol, setCol, whereCol)
		case 2:
			q = fmt.Sprintf("DELETE FROM %s WHERE %s = $key$;", tb.name, whereCol)
		case 3:
			// placeholder names are free identifiers: upper-case first letters, names differing only by case
			q = fmt.Sprintf("UPDATE %s SET %s = $NewValue$ WHERE %s = $Key$ ;", tb.name, setCol, whereCol)
			o.class("directive:query_placeholder_upper_case")
		case 4:
			q = fmt.Sprintf("UPDATE %s SET %s = $Val$ WHERE %s = $val$ OR %s = $Val$;", tb.name, setCol, whereCol, setCol)
			o.class("directive:query_placeholder_upper_case")
		default:
			q = fmt.Sprintf("UPDATE %s SET %s = $a$ WHERE %s = $b$ AND %s = $a$;", tb.name, setCol, whereCol, setCol)
		}
		d.Doc = append(d.Doc, "gomacro:QUERY "+fn+" "+q)
		o.class("directive:custom_query")
	}
}

func pickDistinct(t *rapid.T, xs []string, n int, label string) []string {
	pool := append([]string{}, xs...)
	var out []string
	for i := 0; i < n && len(pool) > 0; i++ {
		j := rapid.IntRange(0, len(pool)-1).Draw(t, label)
		out = append(out, pool[j])
		pool = append(pool[:j], pool[j+1:]...)
	}
	return out
}
