package synth

import (
	"fmt"
	"strings"

	"pgregory.net/rapid"
)

// Opts configures one draw of a program.
type Opts struct {
	// Avoid: generator features gated because an *open* known finding is
	// triggered by them (feature name -> finding id). Gated draws are repaired
	// and counted through OnExclude.
	Avoid     map[string]string
	OnExclude func(finding string)
	OnClass   func(class string)

	Pointers            bool // allow pointer fields
	Unions              int  // 0 none, 1 allowed, 2 at least one
	Hostile             bool // add unsupported forms (chan, func, anonymous struct, any, error, complex, anonymous containers of unions, …)
	RareBasics          bool // basic kinds outside randdata's list (uint, uint32, uint64, float32, uintptr)
	Recursion           bool // self / mutual recursion through slices, maps (and pointers when Pointers)
	SubPkgs             bool
	Generics            bool
	Aliases             bool
	Embedded            bool
	StdTypes            bool
	Spelling            bool // unusual but legal spellings (one-letter names, short package names, shared prefixes …)
	TagVariety          bool // the full tag spelling catalogue of C09
	NoIgnoreTag         bool // never put gomacro:"ignore" on a JSON-visible field (C03/C04 domain note)
	JSONSafe            bool // only shapes whose Go JSON encoding round-trips (no bool/float map keys, no embedded time …)
	ManySubPkgs         bool // up to 4 imported packages (C07: import lists)
	ZeroArrays          bool // [0]T arrays (analysis-only properties)
	NamedRecursion      bool // cycles that only go through named maps / slices: type Tree map[string]Tree (analysis-only properties)
	DataIgnoreUnions    bool // gomacro-data:"ignore" may sit on a directly union-typed field (C15)
	ContainerMembers    bool // union members that are named slices / maps of unions, outside the analysed file (C02)
	StdNamedPkgs        bool // an imported user package may be named like a standard one (time)
	ForeignUnions       bool // the analysed package may use unions (and types holding unions) of imported packages (analysis-only properties)
	RecursiveUnions     bool // a struct member of a union may hold a value of that union
	JSONDash            bool // json:"-" tags even without TagVariety (C15: the field is still filled)
	SmallKeyMaps        bool // directed: a struct with a map keyed by an enum (few possible keys)
	Diamonds            bool // directed diamond in the import graph (root -> a, root -> b, a -> b)
	SameNameAsRoot      bool // an imported package may be named like the analysed package (models imports legacy/models)
	NestedGenerics      bool // a generic struct with `T any` instantiated with another instantiation and with a basic type (analysis-only properties)
	EmbedUnionIface     bool // a struct may embed a union interface (compile-only properties: the struct becomes a member of that union)
	EmbedPtrNextToUnion bool // a struct with a union field may embed a pointer to an exported struct (Go-side properties only: the analysis keeps it as a plain field)
	EmbedUnionHolders   bool // an untagged embedded struct may hold union fields (they are flattened into the outer struct)
	LongArrays          bool // directed: fixed arrays of 4..9 elements without an acceptable zero value (C15)
	SameNamePromoted    bool // a flattened embedded struct may have a field with the Go name of an outer field, under another JSON key
	EmbedNamed          bool // structs may embed an exported named non-struct type (a regular field for encoding/json)
	ShortModule         bool // the analysed package may have an import path of one or two elements (module at the root)
	SameNamePkgs        bool // two imported packages may share their package name under different paths (the importing file aliases one)
	OtherFile           int  // out of 10: share of root declarations placed in the sibling (not analysed) file; 0 = 1
	DataIgnore          bool // gomacro-data:"ignore" tags (C15)
	NoValuerNames       bool // no field named Value / Scan (the type receives sql.Valuer / sql.Scanner methods)
	EnumStress          bool // every enum declaration style of C10
	UnionStress         bool // near misses, foreign implementers, embedded interfaces, zero-method interfaces (C11)
	MaxDecls            int
	MinDecls            int
	FixedArrays         bool
	Maps                bool
	Times               bool
}

func (o *Opts) gated(feature string) bool {
	if id, ok := o.Avoid[feature]; ok {
		if o.OnExclude != nil {
			o.OnExclude(id)
		}
		return true
	}
	return false
}

func (o *Opts) class(c string) {
	if o.OnClass != nil {
		o.OnClass(c)
	}
}

// tinfo describes a declared named type available for references.
type tinfo struct {
	pkg  *Pkg
	d    *Decl
	cat  string // struct | basic | id | enum | union | slice | map | array | time | date | generic
	base string // basic kind for basic/id/enum
	// properties used to keep programs inside a domain
	hasUnion  bool // contains a union somewhere (directly or through fields)
	keyOK     bool // usable as JSON map key (string / integer kinds)
	unsupp    bool // contains a form gomacro refuses (hostile)
	hasPtr    bool
	exported  bool
	elemUnion bool     // named slice/map/array whose element is directly a union
	arg       *TypeRef // for generic instantiations: the type argument
}

type gen struct {
	t     *rapid.T
	o     *Opts
	spec  *Spec
	types []*tinfo
	names map[string]map[string]bool // pkg path -> used identifiers
	group int
	idSeq int
}

var words = []string{
	"Alpha", "Bravo", "Charlie", "Delta", "Echo", "Fox", "Golf", "Hotel", "India", "Juliet", "Kilo", "Lima", "Mike", "Nova", "Oscar", "Papa",
	"Quebec", "Romeo", "Sierra", "Tango", "Ultra", "Victor", "Whisky", "Xray", "Yankee", "Zulu", "Shape", "Circle", "Square", "Item", "Orbit",
	"Client", "Grove", "Event", "Token", "Ledger", "Entry", "Label", "Point", "Route", "Score", "Phase", "Grade", "Color", "Level", "State",
}

var fieldWords = []string{
	"Name", "Value", "Count", "Size", "Title", "Body", "Owner", "Rank", "Width", "Height", "Amount", "Label", "Code", "Kind", "Flag", "Note",
	"Index", "Total", "Ratio", "Start", "Stop", "First", "Last", "Left", "Right", "Inner", "Outer", "Data", "Meta", "Extra", "Link", "Path",
}

var pkgNames = []string{"model", "shapes", "store", "core", "items", "users", "geo"}
var subNames = []string{"sub", "inner", "common", "shared", "enums", "kinds", "base"}

func (g *gen) used(pkg *Pkg) map[string]bool {
	m := g.names[pkg.Path]
	if m == nil {
		m = map[string]bool{}
		g.names[pkg.Path] = m
	}
	return m
}

// freshName draws an unused identifier for pkg.
func (g *gen) freshName(pkg *Pkg, label string, exported bool) string {
	used := g.used(pkg)
	if pkg != g.spec.Pkgs[0] && !g.o.Hostile {
		// types of imported packages appear in generated code of the root package: they are exported
		exported = true
	}
	for try := 0; ; try++ {
		var name string
		w := words[rapid.IntRange(0, len(words)-1).Draw(g.t, label)]
		switch {
		case g.o.Spelling && try == 0 && rapid.IntRange(0, 9).Draw(g.t, label+"Spell") == 0:
			// one-letter name
			name = string(rune('A' + rapid.IntRange(0, 25).Draw(g.t, label+"Letter")))
			g.o.class("spelling:one_letter_type")
		case rapid.IntRange(0, 3).Draw(g.t, label+"Two") == 0:
			name = w + words[rapid.IntRange(0, len(words)-1).Draw(g.t, label+"2")]
		default:
			name = w
		}
		if try > 3 {
			name = fmt.Sprintf("%s%d", name, try)
		}
		if !exported {
			name = strings.ToLower(name[:1]) + name[1:]
		}
		if used[name] || goKeyword(name) || strings.Contains(strings.ToLower(name), "date") {
			continue
		}
		if g.usedAnywhere(name, pkg) && g.o.gated("same_name_two_packages") {
			continue
		}
		if g.caseCollision(name, pkg) && g.o.gated("names_differ_only_in_case") {
			continue
		}
		used[name] = true
		return name
	}
}

func goKeyword(s string) bool {
	for _, l := range [][]string{pkgNames, subNames, {"sb", "x", "ab", "geo", "pk", "time", "image", "sql", "fmt", "json", "pq", "errors", "driver", "rand", "strings", "strconv"}} {
		for _, n := range l {
			if n == s {
				return true
			}
		}
	}
	switch s {
	case "break", "case", "chan", "const", "continue", "default", "defer", "else", "fallthrough", "for", "func", "go", "goto", "if", "import",
		"interface", "map", "package", "range", "return", "select", "struct", "switch", "type", "var",
		// predeclared identifiers we do not want to shadow
		"string", "int", "bool", "error", "any", "len", "cap", "new", "make", "true", "false", "nil", "iota", "byte", "rune", "item", "tx", "db":
		return true
	}
	return false
}

var randdataBasics = []string{"bool", "int", "int32", "int64", "uint8", "int8", "int16", "uint16", "float64", "string"}
var rareBasics = []string{"uint", "uint32", "uint64", "float32", "byte", "rune"} // byte and rune: other spellings of uint8 and int32

func (g *gen) drawBasic(label string) string {
	if g.o.RareBasics && rapid.IntRange(0, 7).Draw(g.t, label+"Rare") == 0 {
		return rareBasics[rapid.IntRange(0, len(rareBasics)-1).Draw(g.t, label)]
	}
	// bias towards int / string
	weights := []string{"int", "string", "bool", "float64", "int64", "int", "string", "uint8", "int8", "int16", "uint16", "int32"}
	return weights[rapid.IntRange(0, len(weights)-1).Draw(g.t, label)]
}

func isIntKind(b string) bool {
	switch b {
	case "int", "int8", "int16", "int32", "int64", "uint", "uint8", "uint16", "uint32", "uint64", "byte", "rune":
		return true
	}
	return false
}

// candidates returns declared types visible from pkg satisfying pred.
func (g *gen) candidates(pkg *Pkg, pred func(*tinfo) bool) []*tinfo {
	var out []*tinfo
	for _, ti := range g.types {
		if ti.pkg != pkg && (!ti.exported || !g.imports(pkg, ti.pkg)) {
			continue
		}
		if pred == nil || pred(ti) {
			out = append(out, ti)
		}
	}
	return out
}

// imports reports whether from may import to (sub-packages are declared before the root).
func (g *gen) imports(from, to *Pkg) bool {
	if from == to {
		return true
	}
	// only earlier packages in generation order (Pkgs[1:] are generated first, root last; among subs, later may import earlier)
	fi, ti := -1, -1
	for i, p := range g.spec.Pkgs {
		if p == from {
			fi = i
		}
		if p == to {
			ti = i
		}
	}
	if fi == 0 {
		return ti > 0
	}
	return ti > fi
}

func (g *gen) refTo(from *Pkg, ti *tinfo) *TypeRef {
	r := Ref(ti.pkg.Path, ti.d.Name)
	if ti.pkg == from {
		r.Pkg = from.Path
	}
	return r
}

type typeCtx struct {
	depth     int
	asKey     bool // map key position
	inAnonCon bool // inside an anonymous slice/map/array: unions not allowed (documented precondition), unless Hostile
	noUnion   bool
	inArray   bool // inside a fixed array: no slices/maps (TypeScript refuses them) unless Hostile
	namedElem bool // element/key of a named container (its underlying type is an anonymous container)
}

// drawType draws a field type for a declaration of pkg.
func (g *gen) drawType(pkg *Pkg, label string, c typeCtx) (*TypeRef, *tinfo) {
	t := g.t
	if c.asKey {
		// string / integer kinds, named or not
		cands := g.candidates(pkg, func(ti *tinfo) bool { return ti.keyOK })
		if len(cands) > 0 && rapid.IntRange(0, 2).Draw(t, label+"KeyNamed") == 0 {
			ti := cands[rapid.IntRange(0, len(cands)-1).Draw(t, label+"KeyRef")]
			return g.refTo(pkg, ti), ti
		}
		keys := []string{"string", "int", "int64", "string", "uint8", "int32"}
		return Basic(keys[rapid.IntRange(0, len(keys)-1).Draw(t, label+"KeyBasic")]), nil
	}
	// choice of shape
	type choice struct {
		name string
		w    int
	}
	choices := []choice{{"basic", 30}, {"ref", 30}}
	if c.depth < 2 {
		choices = append(choices, choice{"slice", 10})
		if g.o.Maps && !c.inArray {
			choices = append(choices, choice{"map", 6})
		}
		if g.o.FixedArrays {
			choices = append(choices, choice{"array", 5})
		}
		if g.o.Pointers {
			choices = append(choices, choice{"ptr", 3})
		}
	}
	if g.o.Times {
		choices = append(choices, choice{"time", 4})
	}
	if g.o.StdTypes {
		choices = append(choices, choice{"std", 2})
	}
	if g.o.Hostile {
		choices = append(choices, choice{"hostile", 6})
	}
	if c.inArray && !g.o.Hostile {
		// TypeScript refuses fixed arrays of slices/maps: keep them out of the ordinary domain
		var cs []choice
		for _, ch := range choices {
			if ch.name != "slice" && ch.name != "map" {
				cs = append(cs, ch)
			}
		}
		choices = cs
	}
	total := 0
	for _, ch := range choices {
		total += ch.w
	}
	x := rapid.IntRange(0, total-1).Draw(t, label+"Shape")
	var pick string
	for _, ch := range choices {
		if x < ch.w {
			pick = ch.name
			break
		}
		x -= ch.w
	}
	switch pick {
	case "ref":
		cands := g.candidates(pkg, func(ti *tinfo) bool {
			if ti.cat == "generic" || ti.cat == "inst" {
				return false
			}
			if (c.inAnonCon || c.noUnion) && ti.cat == "union" && !g.o.Hostile {
				return false
			}
			if c.inArray && !g.o.Hostile && (ti.cat == "slice" || ti.cat == "map") {
				return false
			}
			// wrappers are only generated for unions of the analysed package: fields use local unions
			if (ti.cat == "union" || ti.hasUnion) && ti.pkg != pkg && !g.o.Hostile && !g.o.ForeignUnions {
				return false
			}
			if ti.pkg != pkg && g.o.ForeignUnions && (ti.cat == "union" || ti.hasUnion) {
				g.o.class("feature:union_of_imported_package_reached")
			}
			return true
		})
		if len(cands) == 0 {
			return Basic(g.drawBasic(label + "B")), nil
		}
		ti := cands[rapid.IntRange(0, len(cands)-1).Draw(t, label+"Ref")]
		return g.refTo(pkg, ti), ti
	case "slice":
		if rapid.IntRange(0, 9).Draw(t, label+"Bytes") == 0 && !g.o.gated("byte_slice_in_json") {
			return Slice(Basic("byte")), nil
		}
		e, ti := g.drawType(pkg, label+"E", typeCtx{depth: c.depth + 1, inAnonCon: true, inArray: c.inArray})
		if byteLike(e, ti) && g.o.gated("byte_slice_in_json") {
			e, ti = Basic("int16"), nil
		}
		return Slice(e), ti
	case "array":
		n := []int{1, 2, 3, 5, 2, 3}[rapid.IntRange(0, 5).Draw(t, label+"Len")]
		if (g.o.Hostile || g.o.ZeroArrays) && rapid.IntRange(0, 9).Draw(t, label+"Len0") == 0 {
			n = 0
			g.o.class("feature:zero_length_array")
		}
		e, ti := g.drawType(pkg, label+"E", typeCtx{depth: c.depth + 1, inAnonCon: true, inArray: true})
		return Array(n, e), ti
	case "map":
		k, _ := g.drawType(pkg, label+"K", typeCtx{asKey: true})
		e, ti := g.drawType(pkg, label+"E", typeCtx{depth: c.depth + 1, inAnonCon: true})
		return Map(k, e), ti
	case "ptr":
		e, ti := g.drawType(pkg, label+"E", typeCtx{depth: c.depth + 1, noUnion: true, namedElem: true})
		if e.K == TPtr {
			return e, ti
		}
		return Ptr(e), ti
	case "time":
		if (c.inAnonCon || c.namedElem) && g.o.gated("time_in_anonymous_container") {
			return Basic("string"), nil
		}
		return Std("time", "Time"), nil
	case "std":
		return Std("image", "Point"), nil
	case "hostile":
		e := Basic("int")
		switch rapid.IntRange(0, 6).Draw(t, label+"Hostile") {
		case 0:
			return &TypeRef{K: TChan, Elem: e}, nil
		case 1:
			return &TypeRef{K: TFunc, Elem: e}, nil
		case 2:
			return &TypeRef{K: TAnon, Elem: e}, nil
		case 3:
			return &TypeRef{K: TAny}, nil
		case 4:
			return &TypeRef{K: TError}, nil
		case 5:
			return &TypeRef{K: TComplex}, nil
		default:
			return Std("fmt", "Stringer"), nil
		}
	}
	return Basic(g.drawBasic(label + "B")), nil
}

// ---------------------------------------------------------------------------

func (g *gen) newDecl(pkg *Pkg, file *File, d *Decl, ti *tinfo) *tinfo {
	file.Decls = append(file.Decls, d)
	ti.pkg, ti.d = pkg, d
	ti.exported = d.Name[0] >= 'A' && d.Name[0] <= 'Z'
	g.types = append(g.types, ti)
	return ti
}

func (g *gen) drawFieldName(used map[string]bool, label string) string {
	for try := 0; ; try++ {
		w := fieldWords[rapid.IntRange(0, len(fieldWords)-1).Draw(g.t, label)]
		if try > 2 {
			w = fmt.Sprintf("%s%d", w, try)
		}
		if g.o.Spelling && rapid.IntRange(0, 14).Draw(g.t, label+"Sp") == 0 {
			w = []string{"ID", "Id", "URL", "X", "Type", "Func", "A", "B"}[rapid.IntRange(0, 7).Draw(g.t, label+"SpW")]
		}
		if g.o.NoValuerNames && (w == "Value" || w == "Scan") {
			continue
		}
		if !used[w] {
			used[w] = true
			return w
		}
	}
}

func (g *gen) drawTag(name string, label string) string {
	t := g.t
	if g.o.DataIgnore && rapid.IntRange(0, 5).Draw(t, label+"DataIgnore") == 0 {
		return `gomacro-data:"ignore"`
	}
	if !g.o.TagVariety {
		switch rapid.IntRange(0, 5).Draw(t, label) {
		case 0:
			return fmt.Sprintf(`json:"%s"`, snake(name))
		case 1:
			if !g.o.gated("json_tag_options") {
				return fmt.Sprintf(`json:"%s,omitempty"`, snake(name))
			}
		case 2:
			if g.o.JSONDash {
				return `json:"-"` // hidden from JSON, still a component of the Go value
			}
		}
		return ""
	}
	switch rapid.IntRange(0, 14).Draw(t, label) {
	case 14:
		// a key that starts with a digit: legal for encoding/json, neither an identifier nor a number in the targets
		return fmt.Sprintf(`json:"2%s"`, snake(name))
	case 0:
		return fmt.Sprintf(`json:"%s"`, snake(name))
	case 1:
		return fmt.Sprintf(`json:"%s,omitempty"`, snake(name))
	case 2:
		return `json:",omitempty"`
	case 3:
		return `json:"-"`
	case 4:
		return `json:"-,"`
	case 5:
		return fmt.Sprintf(`xml:"x" json:"%s"`, snake(name))
	case 6:
		return fmt.Sprintf(`json:"%s" yaml:"y"`, snake(name))
	case 7:
		if g.o.NoIgnoreTag {
			return `json:"-" gomacro:"ignore"`
		}
		return `gomacro:"ignore"`
	case 8:
		if rapid.Bool().Draw(t, label+"OpaqueDart") {
			return `gomacro-opaque:"dart"`
		}
		return `gomacro-opaque:"typescript"`
	case 9:
		if g.o.gated("json_string_option") {
			return fmt.Sprintf(`json:"%s"`, snake(name))
		}
		return fmt.Sprintf(`json:"%s,string"`, snake(name))
	case 10:
		return fmt.Sprintf(`json:"%s-x"`, snake(name))
	case 11:
		// two tags on one field: optional on the wire and opaque for a target
		return fmt.Sprintf(`json:"%s,omitempty" gomacro-opaque:"typescript"`, snake(name))
	case 12:
		return fmt.Sprintf(`gomacro-opaque:"dart" json:"%s,omitempty"`, snake(name))
	}
	return ""
}

func snake(s string) string {
	var sb strings.Builder
	for i, r := range s {
		if r >= 'A' && r <= 'Z' {
			if i > 0 {
				sb.WriteByte('_')
			}
			sb.WriteRune(r + 32)
		} else {
			sb.WriteRune(r)
		}
	}
	return sb.String()
}

func (g *gen) addStruct(pkg *Pkg, file *File, exported bool) *tinfo {
	t := g.t
	d := &Decl{Kind: KStruct, Name: g.freshName(pkg, "structName", exported)}
	ti := &tinfo{cat: "struct"}
	n := rapid.IntRange(0, 6).Draw(t, "nFields")
	if n == 0 && rapid.IntRange(0, 3).Draw(t, "allowEmpty") != 0 {
		n = 1
	}
	used := map[string]bool{}
	usedKeys := map[string]bool{}
	for i := 0; i < n; i++ {
		f := &Field{}
		if g.o.Hostile && rapid.IntRange(0, 14).Draw(t, "embedHostile") == 0 {
			// legal but unsupported embeddings: a pointer to a struct, a predeclared type
			cands := g.candidates(pkg, func(x *tinfo) bool {
				return x.cat == "struct" && x.d.Kind == KStruct && x.pkg == pkg && !used[x.d.Name]
			})
			if len(cands) > 0 && rapid.Bool().Draw(t, "embedPtr") {
				e := cands[rapid.IntRange(0, len(cands)-1).Draw(t, "embedPtrRef")]
				used[e.d.Name] = true
				f.Embedded, f.Name, f.Type = true, e.d.Name, Ptr(g.refTo(pkg, e))
				ti.unsupp = true
				d.Fields = append(d.Fields, f)
				g.o.class("hostile:embedded_pointer")
				continue
			}
			b := []string{"string", "int", "bool", "float64"}[rapid.IntRange(0, 3).Draw(t, "embedBasic")]
			if !used[b] {
				used[b] = true
				f.Embedded, f.Name, f.Type = true, b, Basic(b)
				d.Fields = append(d.Fields, f)
				g.o.class("hostile:embedded_predeclared_type")
				continue
			}
		}
		if g.o.EmbedNamed && rapid.IntRange(0, 11).Draw(t, "embedNamed") == 0 {
			// an embedded exported named type that is not a struct: encoding/json treats it as a field named after the type
			cands := g.candidates(pkg, func(x *tinfo) bool {
				if x.pkg != pkg || x.d == nil || used[x.d.Name] || usedKeys[x.d.Name] || len(x.d.Impl) > 0 || x.d.TimeLike || x.hasUnion || x.unsupp {
					return false
				}
				if !(x.d.Name[0] >= 'A' && x.d.Name[0] <= 'Z') {
					return false
				}
				return (x.d.Kind == KNamed && (x.cat == "basic" || x.cat == "id" || x.cat == "slice" || x.cat == "map" || x.cat == "array")) || x.d.Kind == KEnum
			})
			if len(cands) > 0 {
				e := cands[rapid.IntRange(0, len(cands)-1).Draw(t, "embedNamedRef")]
				used[e.d.Name], usedKeys[e.d.Name] = true, true
				f.Embedded, f.Name, f.Type = true, e.d.Name, g.refTo(pkg, e)
				d.Fields = append(d.Fields, f)
				g.o.class("feature:embedded_named_non_struct")
				continue
			}
		}
		if g.o.Embedded && rapid.IntRange(0, 11).Draw(t, "embed") == 0 {
			cands := g.candidates(pkg, func(x *tinfo) bool {
				return x.cat == "struct" && x.d.Kind == KStruct && x.pkg == pkg && !used[x.d.Name] && (!x.hasUnion || g.o.EmbedUnionHolders)
			})
			if len(cands) > 0 {
				e := cands[rapid.IntRange(0, len(cands)-1).Draw(t, "embedRef")]
				// avoid promoted-name conflicts (C09 handles them separately)
				conflict := false
				sameGoName := false
				for _, ef := range e.d.Fields {
					if ef.Embedded || ef.Name == e.d.Name || usedKeys[JSONKey(ef)] {
						conflict = true
					}
					if used[ef.Name] {
						// same Go name as an outer field: harmless for encoding/json when the JSON keys differ
						if g.o.SameNamePromoted {
							sameGoName = true
						} else {
							conflict = true
						}
					}
				}
				if !conflict {
					if sameGoName {
						g.o.class("feature:promoted_field_same_go_name_distinct_key")
					}
					for _, ef := range e.d.Fields {
						used[ef.Name] = true
						usedKeys[JSONKey(ef)] = true
					}
					used[e.d.Name] = true
					f.Embedded, f.Name, f.Type = true, e.d.Name, g.refTo(pkg, e)
					if e.hasUnion {
						// flattened: the union fields become fields of the outer struct, which gets routines of its own.
						// (Under a JSON name the embedded struct's MarshalJSON would be promoted instead: not generated.)
						if rapid.Bool().Draw(t, "embedUnionHolderOptTag") {
							f.Tag = `json:",omitempty"`
						}
						g.o.class("feature:embedded_struct_holding_a_union")
					} else if g.o.TagVariety && rapid.IntRange(0, 5).Draw(t, "embedTag") == 0 && !g.o.gated("tagged_embedded") {
						// a tagged embedded struct is NOT flattened by encoding/json: it nests under the tag name
						f.Tag = fmt.Sprintf(`json:"%s"`, snake(e.d.Name))
						g.o.class("feature:tagged_embedded_struct")
					} else if g.o.TagVariety && rapid.IntRange(0, 5).Draw(t, "embedOptTag") == 0 {
						// a tag without a name: still flattened
						f.Tag = `json:",omitempty"`
						g.o.class("feature:embedded_struct_options_only_tag")
					}
					ti.hasUnion = ti.hasUnion || e.hasUnion
					d.Fields = append(d.Fields, f)
					g.o.class("feature:embedded_struct")
					continue
				}
			}
		}
		f.Name = g.drawFieldName(used, "fieldName")
		if rapid.IntRange(0, 11).Draw(t, "unexportedField") == 0 {
			f.Name = strings.ToLower(f.Name[:1]) + f.Name[1:]
			if goKeyword(f.Name) || used[f.Name] {
				f.Name += "x"
			}
			if used[f.Name] && g.o.gated("shadowed_promoted_field_in_union_struct") {
				// the name of a field promoted from an embedded struct (legal Go: the outer field shadows it)
				for used[f.Name] {
					f.Name += "x"
				}
			}
			used[f.Name] = true
		}
		unexp := !(f.Name[0] >= 'A' && f.Name[0] <= 'Z')
		ft, fti := g.drawType(pkg, "ftype", typeCtx{noUnion: unexp && g.o.Unions > 0 && g.o.gated("union_only_via_ignored_field")})
		if unexp && fti != nil && fti.hasUnion && g.o.gated("union_only_via_ignored_field") {
			ft, fti = Basic("int"), nil
		}
		f.Type = ft
		if fti != nil {
			ti.hasUnion = ti.hasUnion || fti.hasUnion || fti.cat == "union"
			ti.unsupp = ti.unsupp || fti.unsupp
		}
		if f.Name[0] >= 'A' && f.Name[0] <= 'Z' {
			f.Tag = g.drawTag(f.Name, "tag")
			if g.o.DataIgnoreUnions && fti != nil && fti.cat == "union" && ft.K == TRef && rapid.IntRange(0, 2).Draw(t, "dataIgnoreUnion") == 0 {
				f.Tag = `gomacro-data:"ignore"`
			}
			if (strings.Contains(f.Tag, `json:"-"`) || strings.Contains(f.Tag, `gomacro:"ignore"`) || strings.Contains(f.Tag, `gomacro-opaque:"dart"`)) && fti != nil && (fti.cat == "union" || fti.hasUnion) && g.o.gated("union_only_via_ignored_field") {
				f.Tag = ""
			}
			if strings.Contains(f.Tag, "gomacro-data") && fti != nil && fti.cat == "union" && ft.K == TRef && g.o.DataIgnoreUnions {
				// the skipped union stays nil: the value is then kept out of the JSON round trip by the harness
				g.o.class("feature:data_ignore_on_union_field")
			} else if strings.Contains(f.Tag, "gomacro-data") && fti != nil && (fti.cat == "union" || fti.hasUnion) {
				// a skipped union component would stay nil, which is outside the JSON round trip's domain
				f.Tag = ""
			}
			// two fields of one struct never share a JSON key (encoding/json would drop both)
			key := JSONKey(f)
			if usedKeys[key] {
				f.Tag = ""
				key = f.Name
			}
			usedKeys[key] = true
		}
		d.Fields = append(d.Fields, f)
	}
	return g.newDecl(pkg, file, d, ti)
}

func (g *gen) addNamed(pkg *Pkg, file *File) *tinfo {
	t := g.t
	exported := rapid.IntRange(0, 7).Draw(t, "namedExported") != 0
	switch rapid.IntRange(0, 9).Draw(t, "namedShape") {
	case 0, 1, 2: // named basic
		b := g.drawBasic("namedBasic")
		d := &Decl{Kind: KNamed, Name: g.freshName(pkg, "namedName", exported), Type: Basic(b)}
		return g.newDecl(pkg, file, d, &tinfo{cat: "basic", base: b, keyOK: b == "string" || isIntKind(b)})
	case 3: // id type
		g.idSeq++
		name := "Id" + g.freshName(pkg, "idName", true)
		if rapid.Bool().Draw(t, "idSuffix") {
			name = strings.TrimPrefix(name, "Id") + "ID"
		}
		g.used(pkg)[name] = true
		d := &Decl{Kind: KNamed, Name: name, Type: Basic("int64")}
		return g.newDecl(pkg, file, d, &tinfo{cat: "id", base: "int64", keyOK: true})
	case 4, 5: // named slice
		e, eti := g.drawType(pkg, "nsElem", typeCtx{depth: 1, namedElem: true})
		if byteLike(e, eti) && g.o.gated("byte_slice_in_json") {
			e, eti = Basic("int16"), nil
		}
		d := &Decl{Kind: KNamed, Name: g.freshName(pkg, "nsName", exported), Type: Slice(e)}
		ti := &tinfo{cat: "slice"}
		if eti != nil {
			ti.hasUnion = eti.hasUnion || eti.cat == "union"
			ti.elemUnion = eti.cat == "union" && e.K == TRef
		}
		return g.newDecl(pkg, file, d, ti)
	case 6: // named map
		if !g.o.Maps {
			break
		}
		k, _ := g.drawType(pkg, "nmKey", typeCtx{asKey: true})
		e, eti := g.drawType(pkg, "nmElem", typeCtx{depth: 1, namedElem: true})
		d := &Decl{Kind: KNamed, Name: g.freshName(pkg, "nmName", exported), Type: Map(k, e)}
		ti := &tinfo{cat: "map"}
		if eti != nil {
			ti.hasUnion = eti.hasUnion || eti.cat == "union"
			ti.elemUnion = eti.cat == "union" && e.K == TRef
		}
		return g.newDecl(pkg, file, d, ti)
	case 7: // named fixed array
		if !g.o.FixedArrays {
			break
		}
		e, eti := g.drawType(pkg, "naElem", typeCtx{depth: 1, inArray: true, namedElem: true, noUnion: g.o.gated("named_array_of_union")})
		n := rapid.IntRange(1, 4).Draw(t, "naLen")
		if g.o.ZeroArrays && rapid.IntRange(0, 7).Draw(t, "naLen0") == 0 {
			n = 0
			g.o.class("feature:zero_length_array")
		}
		d := &Decl{Kind: KNamed, Name: g.freshName(pkg, "naName", exported), Type: Array(n, e)}
		ti := &tinfo{cat: "array"}
		if eti != nil {
			ti.hasUnion = eti.hasUnion || eti.cat == "union"
			ti.elemUnion = eti.cat == "union" && e.K == TRef
		}
		return g.newDecl(pkg, file, d, ti)
	case 8: // time-like
		if !g.o.Times {
			break
		}
		has := false
		for _, x := range g.types {
			if x.pkg == pkg && x.cat == "date" {
				has = true
			}
		}
		if rapid.Bool().Draw(t, "isDate") && !has {
			name := g.freshName(pkg, "dateName", true) + "Date"
			g.used(pkg)[name] = true
			d := &Decl{Kind: KNamed, Name: name, Type: Std("time", "Time"), TimeLike: true}
			return g.newDecl(pkg, file, d, &tinfo{cat: "date"})
		}
		d := &Decl{Kind: KNamed, Name: g.freshName(pkg, "stampName", true), Type: Std("time", "Time"), TimeLike: true}
		return g.newDecl(pkg, file, d, &tinfo{cat: "time"})
	case 9: // named over named
		cands := g.candidates(pkg, func(x *tinfo) bool {
			if x.pkg != pkg && x.hasUnion && !g.o.Hostile {
				return false
			}
			return x.cat == "basic" || x.cat == "struct" || x.cat == "slice"
		})
		if len(cands) > 0 {
			b := cands[rapid.IntRange(0, len(cands)-1).Draw(t, "nnRef")]
			d := &Decl{Kind: KNamed, Name: g.freshName(pkg, "nnName", exported), Type: g.refTo(pkg, b)}
			cp := *b
			cp.elemUnion = b.elemUnion
			g.o.class("feature:named_over_named")
			return g.newDecl(pkg, file, d, &cp)
		}
	}
	b := g.drawBasic("namedBasic2")
	d := &Decl{Kind: KNamed, Name: g.freshName(pkg, "namedName2", exported), Type: Basic(b)}
	return g.newDecl(pkg, file, d, &tinfo{cat: "basic", base: b, keyOK: b == "string" || isIntKind(b)})
}

// addUnion declares an interface and makes 1..4 already declared local types implement it.
func (g *gen) addUnion(pkg *Pkg, file *File) *tinfo {
	t := g.t
	cands := g.candidates(pkg, func(x *tinfo) bool {
		return x.pkg == pkg && (x.cat == "struct" || x.cat == "basic" || x.cat == "slice" || x.cat == "map" || x.cat == "id") && x.d.Kind != KAlias
	})
	if len(cands) == 0 {
		g.addStruct(pkg, file, true)
		cands = g.candidates(pkg, func(x *tinfo) bool { return x.pkg == pkg && x.cat == "struct" })
	}
	exported := rapid.IntRange(0, 5).Draw(t, "unionExported") != 0
	name := g.freshName(pkg, "unionName", exported)
	if len(name) == 1 && g.o.gated("one_letter_union") {
		name = name + "x"
	}
	if len(name) >= 2 && g.o.gated("union_prefix_collision") {
		// repair: make the two-letter prefix unique among the unions of the package
		for _, x := range g.types {
			if x.pkg == pkg && x.cat == "union" && len(x.d.Name) >= 2 && strings.EqualFold(x.d.Name[:2], name[:2]) {
				delete(g.used(pkg), name)
				name = fmt.Sprintf("%c%c%s", 'A'+len(g.types)%26, 'a'+(len(g.types)/26)%26, name)
				if !exported {
					name = strings.ToLower(name[:1]) + name[1:]
				}
				g.used(pkg)[name] = true
				break
			}
		}
	}
	nm := rapid.IntRange(1, 2).Draw(t, "nMarkers")
	d := &Decl{Kind: KUnion, Name: name}
	if g.o.UnionStress && rapid.IntRange(0, 9).Draw(t, "zeroMethods") == 0 && !g.hasGenericIn(pkg) {
		nm = 0
		g.o.class("union:zero_method_interface")
	}
	exportedMarkers := g.o.UnionStress && rapid.IntRange(0, 2).Draw(t, "exportedMarkers") == 0
	for i := 0; i < nm; i++ {
		m := "is" + name
		if exportedMarkers {
			m = "Is" + strings.ToUpper(name[:1]) + name[1:]
		}
		if i > 0 {
			m = fmt.Sprintf("mark%s%d", name, i)
		}
		d.Methods = append(d.Methods, m)
	}
	if g.o.UnionStress && nm > 0 && rapid.IntRange(0, 5).Draw(t, "embedItf") == 0 {
		its := g.candidates(pkg, func(x *tinfo) bool { return x.pkg == pkg && x.cat == "union" && len(x.d.Methods) > 0 })
		if len(its) > 0 {
			d.Embeds = append(d.Embeds, its[rapid.IntRange(0, len(its)-1).Draw(t, "embedItfRef")].d.Name)
			g.o.class("union:embeds_interface")
		}
	}
	ti := &tinfo{cat: "union", hasUnion: true}
	nMembers := rapid.IntRange(1, 4).Draw(t, "nMembers")
	seen := map[*tinfo]bool{}
	for i := 0; i < nMembers; i++ {
		m := cands[rapid.IntRange(0, len(cands)-1).Draw(t, "member")]
		if seen[m] {
			continue
		}
		if (m.cat == "slice" || m.cat == "map") && g.o.gated("nilable_union_member") {
			continue
		}
		seen[m] = true
		for _, meth := range g.fullMethodSet(pkg, d) {
			m.d.Impl = appendMethod(m.d.Impl, Method{Name: meth})
		}
		ti.unsupp = ti.unsupp || m.unsupp
	}
	if g.o.UnionStress && nm > 0 {
		// near misses: pointer receivers, partial method sets, implementers in another package
		for k := 0; k < 2; k++ {
			switch rapid.IntRange(0, 5).Draw(t, "nearMiss") {
			case 0: // all methods with pointer receivers
				m := cands[rapid.IntRange(0, len(cands)-1).Draw(t, "ptrMember")]
				if !seen[m] && !hasAnyMethod(m.d, d.Methods) {
					seen[m] = true
					for _, meth := range g.fullMethodSet(pkg, d) {
						m.d.Impl = appendMethod(m.d.Impl, Method{Name: meth, Ptr: true})
					}
					g.o.class("union:pointer_receiver_near_miss")
				}
			case 1: // only part of the method set
				m := cands[rapid.IntRange(0, len(cands)-1).Draw(t, "partialMember")]
				if !seen[m] && nm >= 2 && !hasAnyMethod(m.d, d.Methods) {
					seen[m] = true
					m.d.Impl = appendMethod(m.d.Impl, Method{Name: d.Methods[0]})
					g.o.class("union:partial_method_set_near_miss")
				}
			case 2: // implementer declared in another package (needs exported markers)
				if exportedMarkers && len(d.Embeds) == 0 {
					foreign := g.candidates(pkg, func(x *tinfo) bool { return x.pkg != pkg && x.cat == "struct" && x.d.Kind == KStruct })
					if len(foreign) > 0 {
						f := foreign[rapid.IntRange(0, len(foreign)-1).Draw(t, "foreignMember")]
						for _, meth := range d.Methods {
							f.d.Impl = appendMethod(f.d.Impl, Method{Name: meth})
						}
						g.o.class("union:implementer_in_other_package")
					}
				}
			}
		}
	}
	if len(seen) == 0 && !(g.o.UnionStress && rapid.IntRange(0, 7).Draw(t, "memberless") == 0) {
		m := g.addStruct(pkg, file, true)
		for _, meth := range g.fullMethodSet(pkg, d) {
			m.d.Impl = appendMethod(m.d.Impl, Method{Name: meth})
		}
	}
	return g.newDecl(pkg, file, d, ti)
}

func appendMethod(ms []Method, m Method) []Method {
	for _, x := range ms {
		if x.Name == m.Name {
			return ms
		}
	}
	return append(ms, m)
}

func hasAnyMethod(d *Decl, names []string) bool {
	for _, m := range d.Impl {
		for _, n := range names {
			if m.Name == n {
				return true
			}
		}
	}
	return false
}

func (g *gen) hasGenericIn(pkg *Pkg) bool {
	for _, ti := range g.types {
		if ti.pkg == pkg && (ti.cat == "generic" || ti.cat == "inst") {
			return true
		}
	}
	return false
}

// fullMethodSet returns the methods of an interface declaration including embedded local interfaces.
func (g *gen) fullMethodSet(pkg *Pkg, d *Decl) []string {
	out := append([]string{}, d.Methods...)
	for _, e := range d.Embeds {
		for _, ti := range g.types {
			if ti.pkg == pkg && ti.d.Name == e {
				out = append(out, g.fullMethodSet(pkg, ti.d)...)
			}
		}
	}
	return out
}

// JSONKey is the key encoding/json uses for a (non-embedded) field: the name part of the json tag, else the Go name.
// "-" (tag exactly "-") and unexported fields are invisible; they get a key that cannot collide.
func JSONKey(f *Field) string {
	tag := structTagGet(f.Tag, "json")
	if tag == "-" || !(f.Name[0] >= 'A' && f.Name[0] <= 'Z') {
		return "\x00" + f.Name
	}
	name, _, _ := strings.Cut(tag, ",")
	if name == "" {
		return f.Name
	}
	return name
}

func structTagGet(tag, key string) string {
	// same conventions as reflect.StructTag.Get for the tags we write
	for tag != "" {
		tag = strings.TrimLeft(tag, " ")
		i := strings.Index(tag, ":\"")
		if i < 0 {
			return ""
		}
		name := tag[:i]
		rest := tag[i+2:]
		j := strings.Index(rest, "\"")
		if j < 0 {
			return ""
		}
		if name == key {
			return rest[:j]
		}
		tag = rest[j+1:]
	}
	return ""
}

// byteLike: an element type of kind uint8 (named or not): encoding/json writes slices of it as base64 strings
func byteLike(e *TypeRef, ti *tinfo) bool {
	if e.K == TBasic && (e.Name == "uint8" || e.Name == "byte") {
		return true
	}
	return e.K == TRef && ti != nil && (ti.cat == "basic" || ti.cat == "enum") && (ti.base == "uint8" || ti.base == "byte")
}

func (g *gen) usedAnywhere(name string, except *Pkg) bool {
	if name == "Point" && g.o.StdTypes {
		return true // image.Point
	}
	for path, m := range g.names {
		if path == except.Path {
			continue
		}
		for n := range m {
			if strings.EqualFold(n, name) {
				return true
			}
		}
	}
	return false
}

func (g *gen) caseCollision(name string, pkg *Pkg) bool {
	for n := range g.names[pkg.Path] {
		if n != name && strings.EqualFold(n, name) {
			return true
		}
	}
	return false
}
