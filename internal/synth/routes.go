package synth

import (
	"fmt"
	"sort"
	"strings"

	"pgregory.net/rapid"
)

// RouteSpec describes a source file registering routes with Echo-style verb
// methods, together with the expected extraction result (the reference model).

type RouteOpts struct {
	Avoid     map[string]string
	OnExclude func(string)
	OnClass   func(string)
}

func (o *RouteOpts) gated(f string) bool {
	if id, ok := o.Avoid[f]; ok {
		if o.OnExclude != nil {
			o.OnExclude(id)
		}
		return true
	}
	return false
}

func (o *RouteOpts) class(c string) {
	if o.OnClass != nil {
		o.OnClass(c)
	}
}

type RType struct {
	Name   string   `json:"name"`
	Kind   string   `json:"kind"` // struct | id | slice | map
	Fields []string `json:"fields,omitempty"`
	Elem   string   `json:"elem,omitempty"`
	Key    string   `json:"key,omitempty"` // map key type, "" = string
}

type RStmt struct {
	Kind   string `json:"kind"`              // bind | query | querybool | queryint64 | querygeneric | formvalue | formfile | formjson | decoy
	Name   string `json:"name,omitempty"`    // parameter / form field name (a string constant expression)
	Type   string `json:"type,omitempty"`    // Go type text (bind target, formjson destination, generic type argument)
	ViaPkg bool   `json:"via_pkg,omitempty"` // querygeneric: the helper of the imported package is called (inner.QueryParamInt[T])
	Form   string `json:"form"`              // define | assign | blank | iferr | pair (two query params in one assignment)
	Ptr    bool   `json:"ptr,omitempty"`     // bind through a pointer variable instead of &value
	Method bool   `json:"method,omitempty"`
	Name2  string `json:"name2,omitempty"` // second parameter of a pair
	ByRef  bool   `json:"byref,omitempty"` // name given through a constant instead of a literal
}

type RHandler struct {
	Name   string  `json:"name"`
	Kind   string  `json:"kind"` // method | ptrmethod | func | innermethod | innerfunc | literal
	Ctrl   int     `json:"ctrl"`
	Stmts  []RStmt `json:"stmts"`
	Return string  `json:"return"`           // json | jsonpretty | jsonlit | blob | nil | err
	RType  string  `json:"rtype,omitempty"`  // Go type text of the returned value
	Ctx    string  `json:"ctx"`              // name of the context parameter
	Unused bool    `json:"unused,omitempty"` // declared but not registered (decoy)
	Inner  bool    `json:"inner,omitempty"`  // declared in the imported package
	Recv   string  `json:"recv,omitempty"`   // receiver variable name when the body uses typed helper methods
	Extra  string  `json:"extra,omitempty"`  // extra statements (decoys)
}

type RPart struct {
	Kind string `json:"kind"` // lit | local | pkg | inner
	Val  string `json:"val"`
	Name string `json:"name,omitempty"`
	Esc  bool   `json:"esc,omitempty"` // lit: the slashes are spelled \x2f in the source (an interpreted literal with escape sequences)
}

type RRoute struct {
	Verb    string  `json:"verb"`
	Path    []RPart `json:"path"`
	Handler int     `json:"handler"`
	ViaCtrl int     `json:"viactrl"`      // which controller variable is used for method values
	Mw      int     `json:"mw,omitempty"` // number of trailing middleware arguments (echo: GET(path, h, m ...MiddlewareFunc))
}

type RCtrl struct {
	Var     string `json:"var"`
	Pointer bool   `json:"pointer"`
	Inner   bool   `json:"inner"`
}

type RouteSpec struct {
	Pkg      string     `json:"pkg"`
	Types    []RType    `json:"types"`
	Ctrls    []RCtrl    `json:"ctrls"`
	Handlers []RHandler `json:"handlers"`
	Routes   []RRoute   `json:"routes"`
	PkgConst string     `json:"pkgconst"`
	Prefix   string     `json:"prefix"` // prefix filter to apply ("" = none)
	Decoys   bool       `json:"decoys"`
	// SecondInner: a second imported package that is also named inner (v2/inner) provides one more handler
	SecondInner bool `json:"second_inner,omitempty"`
}

// ExpParam / ExpEndpoint: the expected extraction result.
type ExpParam struct {
	Name, Type string
}

type ExpEndpoint struct {
	Verb, URL  string
	Handler    string // "" for function literals (name must be non-empty and unique)
	Literal    bool
	Input      string // "" = none
	Return     string // "" = none
	Blob       bool
	Query      []ExpParam
	FormValues []string
	FormFile   string
	FormJSON   ExpParam
}

const routeRootName = "server"

func (rs *RouteSpec) rootPath() string { return Module + "/" + routeRootName }

var routeWords = []string{"list", "create", "update", "remove", "fetch", "export", "upload", "search", "login", "stats"}

// GenRoutes draws a route file.
func GenRoutes(t *rapid.T, o *RouteOpts) *RouteSpec {
	rs := &RouteSpec{Pkg: []string{"main", "server"}[rapid.IntRange(0, 1).Draw(t, "pkgName")], PkgConst: "/api/v1/"}
	rs.Types = []RType{
		{Name: "Item", Kind: "struct", Fields: []string{"Id IdItem", "Name string", "Tags []string"}},
		{Name: "IdItem", Kind: "id"},
		{Name: "Filter", Kind: "struct", Fields: []string{"Query string", "Limit int"}},
		{Name: "Items", Kind: "slice", Elem: "Item"},
		{Name: "Index", Kind: "map", Elem: "Item"},
		// types that are only ever used as map keys
		{Name: "IdTag", Kind: "id"},
		{Name: "IdGroup", Kind: "id"},
		{Name: "ByTag", Kind: "map", Key: "IdTag", Elem: "string"},
	}
	typePool := []string{"Item", "Filter", "Items", "Index", "[]Item", "map[string]Item", "int", "string", "[]int64", "IdItem", "uint", "[][]string", "bool", "inner.Payload",
		"ByTag", "map[IdGroup]bool", "map[int]string", "[2]int", "[2]int16", "[3]float64"}
	rs.Ctrls = []RCtrl{{Var: "ct", Pointer: rapid.Bool().Draw(t, "ctPtr")}, {Var: "ct2", Inner: true}}
	if rapid.Bool().Draw(t, "secondCtrl") {
		rs.Ctrls = append(rs.Ctrls, RCtrl{Var: "admin", Pointer: rapid.Bool().Draw(t, "adminPtr")})
	}
	nRoutes := rapid.IntRange(1, 12).Draw(t, "nRoutes")
	usedNames := map[string]bool{}
	usedParam := func(used map[string]bool, label string) string {
		for i := 0; ; i++ {
			n := []string{"id", "page", "q", "sort", "id-1", "from", "with space", "flag", "token"}[rapid.IntRange(0, 8).Draw(t, label)]
			if i > 2 {
				n = fmt.Sprintf("%s%d", n, i)
			}
			if !used[n] {
				used[n] = true
				return n
			}
		}
	}
	for i := 0; i < nRoutes; i++ {
		h := RHandler{Ctx: []string{"c", "ctx", "e"}[rapid.IntRange(0, 2).Draw(t, "ctxName")]}
		kinds := []string{"method", "method", "func", "innermethod", "innerfunc", "literal", "method"}
		h.Kind = kinds[rapid.IntRange(0, len(kinds)-1).Draw(t, "handlerKind")]
		base := routeWords[rapid.IntRange(0, len(routeWords)-1).Draw(t, "handlerWord")]
		name := base
		for k := 2; usedNames[strings.ToLower(name)]; k++ {
			name = fmt.Sprintf("%s%d", base, k)
		}
		usedNames[strings.ToLower(name)] = true
		switch h.Kind {
		case "method":
			h.Name = name
			var cands []int
			for ci, ct := range rs.Ctrls {
				if !ct.Inner {
					cands = append(cands, ci)
				}
			}
			h.Ctrl = cands[rapid.IntRange(0, len(cands)-1).Draw(t, "ctrl")]
		case "func":
			h.Name = name + "Func"
		case "innermethod":
			h.Name, h.Inner, h.Ctrl = strings.Title(name)+"Ext", true, 1
		case "innerfunc":
			h.Name, h.Inner = strings.Title(name)+"Top", true
		case "literal":
			h.Name = ""
		}
		// body
		pool := typePool
		if h.Inner {
			pool = []string{"int", "string", "[]int64", "Payload", "[]Payload", "map[string][]int", "bool", "uint"}
		}
		usedP := map[string]bool{}
		nStmts := rapid.IntRange(0, 4).Draw(t, "nStmts")
		hasBind, hasFile, hasJSON, hasForm := false, false, false, false
		for s := 0; s < nStmts; s++ {
			st := RStmt{Form: []string{"define", "assign", "blank", "iferr"}[rapid.IntRange(0, 3).Draw(t, "stmtForm")]}
			ks := []string{"bind", "query", "query", "querybool", "queryint64", "querygeneric", "formvalue", "formfile", "formjson", "query"}
			st.Kind = ks[rapid.IntRange(0, len(ks)-1).Draw(t, "stmtKind")]
			if h.Inner && (st.Kind == "querybool" || st.Kind == "queryint64" || st.Kind == "querygeneric" || st.Kind == "formjson") {
				st.Kind = "query" // the typed helpers live in the main package
			}
			// a request carries either a JSON body or form data, never both
			isFormStmt := st.Kind == "formvalue" || st.Kind == "formfile" || st.Kind == "formjson"
			if (isFormStmt && hasBind) || (st.Kind == "bind" && hasForm) {
				st.Kind = "query"
			}
			if isFormStmt && st.Kind != "query" {
				hasForm = true
			}
			switch st.Kind {
			case "bind":
				if hasBind {
					continue
				}
				hasBind = true
				st.Type = pool[rapid.IntRange(0, len(pool)-1).Draw(t, "bindType")]
				st.Ptr = rapid.IntRange(0, 3).Draw(t, "bindPtr") == 0
				if st.Form == "define" && hasBind {
					// fine
				}
			case "query":
				st.Name = usedParam(usedP, "qName")
				if st.Form == "iferr" {
					st.Form = "define"
				}
				if rapid.IntRange(0, 4).Draw(t, "pair") == 0 && st.Form != "blank" {
					st.Form, st.Name2 = "pair", usedParam(usedP, "qName2")
				}
				st.ByRef = rapid.IntRange(0, 5).Draw(t, "byRef") == 0
			case "querybool", "queryint64":
				st.Name = usedParam(usedP, "qName")
				st.Method = rapid.Bool().Draw(t, "helperMethod")
				if st.Form == "iferr" {
					st.Form = "define"
				}
			case "querygeneric":
				st.Name = usedParam(usedP, "qName")
				st.Type = "IdItem"
				if st.Form == "blank" {
					st.Form = "define"
				}
				if rapid.IntRange(0, 2).Draw(t, "genericViaPkg") == 0 {
					st.ViaPkg = true // inner.QueryParamInt[IdItem](c, "name")
					o.class("routes:generic_helper_through_package_qualifier")
				}
			case "formvalue":
				st.Name = usedParam(usedP, "fName")
				if st.Form == "iferr" {
					st.Form = "define"
				}
			case "formfile":
				if hasFile {
					continue
				}
				hasFile = true
				st.Name = usedParam(usedP, "fName")
				if st.Form == "blank" || h.Inner {
					st.Form = "define"
				}
			case "formjson":
				if hasJSON || o.gated("form_json_field") {
					continue
				}
				hasJSON = true
				st.Name = usedParam(usedP, "fName")
				st.Type = []string{"uint32", "Filter", "[]int", "Item", "IdItem", "string", "bool", "Index", "string"}[rapid.IntRange(0, 8).Draw(t, "jsonType")]
			}
			h.Stmts = append(h.Stmts, st)
		}
		// typed helper methods need a receiver variable
		for _, st := range h.Stmts {
			if st.Method {
				if h.Kind == "method" {
					h.Recv = "ctl"
				} else {
					// plain functions call the function form
					for k := range h.Stmts {
						h.Stmts[k].Method = false
					}
				}
			}
		}
		rets := []string{"json", "json", "jsonlit", "jsonpretty", "blob", "nil", "err"}
		h.Return = rets[rapid.IntRange(0, len(rets)-1).Draw(t, "returnKind")]
		switch h.Return {
		case "json", "jsonpretty":
			h.RType = pool[rapid.IntRange(0, len(pool)-1).Draw(t, "retType")]
		case "jsonlit":
			lits := []string{"Item", "Filter", "[]Item", "map[string]Item", "[][]string"}
			if h.Inner {
				lits = []string{"Payload", "[]Payload", "[][]string"}
			}
			h.RType = lits[rapid.IntRange(0, len(lits)-1).Draw(t, "retLit")]
		case "blob":
			h.RType = "[]byte"
		}
		if rapid.IntRange(0, 3).Draw(t, "decoy") == 0 {
			h.Extra = []string{"helperLog(\"x\")", "_ = fmtSprint(\"GET\", 1)", "other.GETTER(1)"}[rapid.IntRange(0, 1).Draw(t, "decoyKind")]
		}
		rs.Handlers = append(rs.Handlers, h)

		// the registration
		r := RRoute{Verb: []string{"GET", "POST", "PUT", "DELETE"}[rapid.IntRange(0, 3).Draw(t, "verb")], Handler: len(rs.Handlers) - 1, ViaCtrl: h.Ctrl}
		if (hasBind || hasForm) && (r.Verb == "GET" || r.Verb == "DELETE") && o.gated("body_on_get_delete") {
			r.Verb = "POST"
		}
		if rapid.IntRange(0, 3).Draw(t, "middlewares") == 0 {
			r.Mw = rapid.IntRange(1, 2).Draw(t, "nMiddlewares")
			o.class("routes:with_middleware_arguments")
		}
		nParts := rapid.IntRange(1, 3).Draw(t, "nParts")
		for p := 0; p < nParts; p++ {
			switch rapid.IntRange(0, 5).Draw(t, "partKind") {
			case 0:
				r.Path = append(r.Path, RPart{Kind: "pkg", Name: "routePrefix", Val: rs.PkgConst})
			case 1:
				r.Path = append(r.Path, RPart{Kind: "local", Name: "localRoute", Val: "local/"})
			case 2:
				r.Path = append(r.Path, RPart{Kind: "inner", Name: "inner.Url", Val: "/inner_url/"})
			default:
				lit := []string{"/items", "/items/:id", "/with space", "/download", "/a/b/c", "/q?x=1", "/o'quote", "v2/"}[rapid.IntRange(0, 7).Draw(t, "partLit")]
				esc := rapid.IntRange(0, 5).Draw(t, "partEsc") == 0
				if esc {
					o.class("routes:escape_sequences_in_a_path_literal")
				}
				r.Path = append(r.Path, RPart{Kind: "lit", Val: lit, Esc: esc})
			}
		}
		rs.Routes = append(rs.Routes, r)
	}
	rs.Decoys = rapid.Bool().Draw(t, "decoys")
	rs.SecondInner = rapid.IntRange(0, 2).Draw(t, "secondInner") == 0
	if rs.SecondInner {
		o.class("routes:two_handler_packages_with_one_name")
	}
	// prefix filter: none, a prefix of some URL, or a non matching one
	switch rapid.IntRange(0, 3).Draw(t, "prefixKind") {
	case 0:
		rs.Prefix = ""
	case 1:
		rs.Prefix = "/zz_no_such_prefix"
	default:
		urls := rs.Expected("")
		u := urls[rapid.IntRange(0, len(urls)-1).Draw(t, "prefixOf")].URL
		rs.Prefix = u[:rapid.IntRange(0, len(u)).Draw(t, "prefixLen")]
	}
	return rs
}

func (r *RRoute) url() string {
	var sb strings.Builder
	for _, p := range r.Path {
		sb.WriteString(p.Val)
	}
	return sb.String()
}

// typeString gives the fully qualified Go type text expected for a type written in package pkg.
func (rs *RouteSpec) qualify(typ string, inner bool) string {
	if typ == "" {
		return ""
	}
	pkgPath := rs.rootPath()
	if inner {
		pkgPath = rs.rootPath() + "/inner"
	}
	var sb strings.Builder
	i := 0
	for i < len(typ) {
		c := typ[i]
		if c >= 'A' && c <= 'Z' {
			j := i
			for j < len(typ) && (typ[j] == '_' || typ[j] >= 'a' && typ[j] <= 'z' || typ[j] >= 'A' && typ[j] <= 'Z' || typ[j] >= '0' && typ[j] <= '9') {
				j++
			}
			sb.WriteString(pkgPath + "." + typ[i:j])
			i = j
			continue
		}
		if strings.HasPrefix(typ[i:], "inner.") {
			sb.WriteString(rs.rootPath() + "/inner.")
			i += len("inner.")
			j := i
			for j < len(typ) && (typ[j] >= 'a' && typ[j] <= 'z' || typ[j] >= 'A' && typ[j] <= 'Z') {
				j++
			}
			sb.WriteString(typ[i:j])
			i = j
			continue
		}
		if c >= 'a' && c <= 'z' {
			j := i
			for j < len(typ) && (typ[j] >= 'a' && typ[j] <= 'z' || typ[j] >= '0' && typ[j] <= '9') {
				j++
			}
			sb.WriteString(typ[i:j])
			i = j
			continue
		}
		sb.WriteByte(c)
		i++
	}
	return sb.String()
}

// Expected computes the reference extraction result for the given prefix filter.
func (rs *RouteSpec) Expected(prefix string) []ExpEndpoint {
	var out []ExpEndpoint
	for _, r := range rs.Routes {
		h := rs.Handlers[r.Handler]
		e := ExpEndpoint{Verb: r.Verb, URL: r.url(), Handler: h.Name, Literal: h.Kind == "literal"}
		if prefix != "" && !strings.HasPrefix(e.URL, prefix) {
			continue
		}
		for _, st := range h.Stmts {
			switch st.Kind {
			case "bind":
				e.Input = rs.qualify(st.Type, h.Inner)
			case "query":
				e.Query = append(e.Query, ExpParam{st.Name, "string"})
				if st.Form == "pair" {
					e.Query = append(e.Query, ExpParam{st.Name2, "string"})
				}
			case "querybool":
				e.Query = append(e.Query, ExpParam{st.Name, "bool"})
			case "queryint64":
				e.Query = append(e.Query, ExpParam{st.Name, "int64"})
			case "querygeneric":
				e.Query = append(e.Query, ExpParam{st.Name, rs.qualify(st.Type, false)})
			case "formvalue":
				e.FormValues = append(e.FormValues, st.Name)
			case "formfile":
				e.FormFile = st.Name
			case "formjson":
				e.FormJSON = ExpParam{st.Name, rs.qualify(st.Type, false)}
			}
		}
		switch h.Return {
		case "json", "jsonpretty", "jsonlit":
			e.Return = rs.qualify(h.RType, h.Inner)
		case "blob":
			e.Return, e.Blob = "[]byte", true
		}
		out = append(out, e)
	}
	if rs.SecondInner && (prefix == "" || strings.HasPrefix("/v2/ping", prefix)) {
		ty := rs.rootPath() + "/v2/inner.Second"
		out = append(out, ExpEndpoint{Verb: "POST", URL: "/v2/ping", Handler: "PingV2", Input: ty, Return: ty})
	}
	return out
}

// ---------------------------------------------------------------------------
// rendering

func (rs *RouteSpec) renderBody(h RHandler) string {
	var sb strings.Builder
	c := h.Ctx
	n := 0
	nv := func() string { n++; return fmt.Sprintf("v%d", n) }
	used := []string{}
	errDeclared := false
	declErr := func() string {
		if !errDeclared {
			errDeclared = true
			sb.WriteString("\tvar err error\n")
			used = append(used, "err")
		}
		return "err"
	}
	nConst := 0
	lit := func(st RStmt, name string) string {
		if st.ByRef {
			return fmt.Sprintf("paramName%d", nConst)
		}
		return fmt.Sprintf("%q", name)
	}
	if h.Extra != "" {
		sb.WriteString("\thelperLog(\"start\")\n")
	}
	for _, st := range h.Stmts {
		if st.ByRef {
			nConst++
			sb.WriteString(fmt.Sprintf("\tconst paramName%d = %q\n", nConst, st.Name))
		}
		switch st.Kind {
		case "bind":
			v := nv()
			target := "&" + v
			if st.Ptr {
				sb.WriteString(fmt.Sprintf("\t%s := new(%s)\n", v, st.Type))
				target = v
			} else {
				sb.WriteString(fmt.Sprintf("\tvar %s %s\n", v, st.Type))
			}
			used = append(used, v)
			switch st.Form {
			case "define":
				e := nv()
				sb.WriteString(fmt.Sprintf("\t%s := %s.Bind(%s)\n", e, c, target))
				used = append(used, e)
			case "assign":
				sb.WriteString(fmt.Sprintf("\t%s = %s.Bind(%s)\n", declErr(), c, target))
			case "blank":
				sb.WriteString(fmt.Sprintf("\t_ = %s.Bind(%s)\n", c, target))
			default:
				sb.WriteString(fmt.Sprintf("\tif err := %s.Bind(%s); err != nil {\n\t\treturn err\n\t}\n", c, target))
			}
		case "query", "formvalue":
			fn := "QueryParam"
			if st.Kind == "formvalue" {
				fn = "FormValue"
			}
			switch st.Form {
			case "pair":
				a, b := nv(), nv()
				sb.WriteString(fmt.Sprintf("\t%s, %s := %s.%s(%s), %s.%s(%q)\n", a, b, c, fn, lit(st, st.Name), c, fn, st.Name2))
				used = append(used, a, b)
			case "assign":
				v := nv()
				sb.WriteString(fmt.Sprintf("\tvar %s string\n\t%s = %s.%s(%s)\n", v, v, c, fn, lit(st, st.Name)))
				used = append(used, v)
			case "blank":
				sb.WriteString(fmt.Sprintf("\t_ = %s.%s(%s)\n", c, fn, lit(st, st.Name)))
			default:
				v := nv()
				sb.WriteString(fmt.Sprintf("\t%s := %s.%s(%s)\n", v, c, fn, lit(st, st.Name)))
				used = append(used, v)
			}
		case "querybool", "queryint64":
			fn := "QueryParamBool"
			ty := "bool"
			if st.Kind == "queryint64" {
				fn, ty = "QueryParamInt64", "int64"
			}
			call := fmt.Sprintf("%s(%s, %q)", fn, c, st.Name)
			if st.Method {
				call = h.Recv + "." + call
			}
			switch st.Form {
			case "assign":
				v := nv()
				sb.WriteString(fmt.Sprintf("\tvar %s %s\n\t%s = %s\n", v, ty, v, call))
				used = append(used, v)
			case "blank":
				sb.WriteString(fmt.Sprintf("\t_ = %s\n", call))
			default:
				v := nv()
				sb.WriteString(fmt.Sprintf("\t%s := %s\n", v, call))
				used = append(used, v)
			}
		case "querygeneric":
			v := nv()
			fn := "QueryParamInt"
			if st.ViaPkg {
				fn = "inner.QueryParamInt"
			}
			switch st.Form {
			case "iferr":
				sb.WriteString(fmt.Sprintf("\t%s, err2 := %s[%s](%s, %q)\n\tif err2 != nil {\n\t\treturn err2\n\t}\n", v, fn, st.Type, c, st.Name))
			case "assign":
				sb.WriteString(fmt.Sprintf("\tvar %s %s\n\t%s, %s = %s[%s](%s, %q)\n", v, st.Type, v, declErr(), fn, st.Type, c, st.Name))
			default:
				sb.WriteString(fmt.Sprintf("\t%s, _ := %s[%s](%s, %q)\n", v, fn, st.Type, c, st.Name))
			}
			used = append(used, v)
		case "formfile":
			v := nv()
			if st.Form == "assign" {
				sb.WriteString(fmt.Sprintf("\tvar %s *multipart.FileHeader\n\t%s, %s = %s.FormFile(%q)\n", v, v, declErr(), c, st.Name))
			} else {
				sb.WriteString(fmt.Sprintf("\t%s, _ := %s.FormFile(%q)\n", v, c, st.Name))
			}
			used = append(used, v)
		case "formjson":
			v := nv()
			sb.WriteString(fmt.Sprintf("\tvar %s %s\n", v, st.Type))
			used = append(used, v)
			switch st.Form {
			case "define":
				e := nv()
				sb.WriteString(fmt.Sprintf("\t%s := FormValueJSON(%s, %q, &%s)\n", e, c, st.Name, v))
				used = append(used, e)
			case "assign":
				sb.WriteString(fmt.Sprintf("\t%s = FormValueJSON(%s, %q, &%s)\n", declErr(), c, st.Name, v))
			case "blank":
				sb.WriteString(fmt.Sprintf("\t_ = FormValueJSON(%s, %q, &%s)\n", c, st.Name, v))
			default:
				sb.WriteString(fmt.Sprintf("\tif err := FormValueJSON(%s, %q, &%s); err != nil {\n\t\treturn err\n\t}\n", c, st.Name, v))
			}
		}
	}
	if len(used) > 0 {
		sb.WriteString("\thelperUse(" + strings.Join(used, ", ") + ")\n")
	}
	switch h.Return {
	case "json":
		sb.WriteString(fmt.Sprintf("\tvar out %s\n\treturn %s.JSON(200, out)\n", h.RType, c))
	case "jsonpretty":
		sb.WriteString(fmt.Sprintf("\tvar out %s\n\treturn %s.JSONPretty(200, out, \" \")\n", h.RType, c))
	case "jsonlit":
		sb.WriteString(fmt.Sprintf("\treturn %s.JSON(200, %s{})\n", c, h.RType))
	case "blob":
		sb.WriteString(fmt.Sprintf("\tvar output []byte\n\treturn %s.Blob(200, \"\", output)\n", c))
	case "err":
		sb.WriteString("\tvar failure error\n\treturn failure\n")
	default:
		sb.WriteString("\treturn nil\n")
	}
	return sb.String()
}

// Files renders the three packages: path (relative to the module root) -> source.
func (rs *RouteSpec) Files() map[string]string {
	files := map[string]string{}
	files[routeRootName+"/echo/echo.go"] = `// Package echo is a substitute for the http framework echo package.
package echo

import "mime/multipart"

type Context interface {
	Bind(interface{}) error
	JSON(int, interface{}) error
	JSONPretty(int, interface{}, string) error
	QueryParam(string) string
	Blob(code int, contentType string, b []byte) error
	FormValue(name string) string
	FormFile(name string) (*multipart.FileHeader, error)
}

type Echo struct{}

type MiddlewareFunc func(func(Context) error) func(Context) error

func (Echo) GET(string, func(Context) error, ...MiddlewareFunc)    {}
func (Echo) POST(string, func(Context) error, ...MiddlewareFunc)   {}
func (Echo) PUT(string, func(Context) error, ...MiddlewareFunc)    {}
func (Echo) DELETE(string, func(Context) error, ...MiddlewareFunc) {}
func (Echo) GETTER(int)                          {}
func (Echo) Use(string)                          {}
`
	echoPath := rs.rootPath() + "/echo"
	// inner package
	var in strings.Builder
	in.WriteString("// Package inner holds handlers defined in an imported package.\npackage inner\n\nimport (\n\t\"" + echoPath + "\"\n)\n\n")
	in.WriteString("const Url = \"/inner_url/\"\n\ntype Payload struct {\n\tCode int\n\tText string\n}\n\ntype Controller struct{}\n\nfunc QueryParamInt[T ~int64](echo.Context, string) (T, error) { return 0, nil }\n\nfunc helperUse(...any) {}\nfunc helperLog(string)  {}\n\nvar _ = helperLog\nvar _ = helperUse\n\n")
	for _, h := range rs.Handlers {
		if !h.Inner {
			continue
		}
		if h.Kind == "innermethod" {
			in.WriteString(fmt.Sprintf("func (Controller) %s(%s echo.Context) error {\n%s}\n\n", h.Name, h.Ctx, rs.renderBody(h)))
		} else {
			in.WriteString(fmt.Sprintf("func %s(%s echo.Context) error {\n%s}\n\n", h.Name, h.Ctx, rs.renderBody(h)))
		}
	}
	in.WriteString("// a decoy with the same name as handlers of the main package\nfunc (Controller) list(echo.Context) error { return nil }\n")
	files[routeRootName+"/inner/inner.go"] = in.String()
	if rs.SecondInner {
		files[routeRootName+"/v2/inner/inner.go"] = "// Package inner (v2) shares its name with the other imported handler package.\npackage inner\n\nimport (\n\t\"" + echoPath + "\"\n)\n\ntype Second struct {\n\tCode int\n\tNote string\n}\n\nfunc PingV2(c echo.Context) error {\n\tvar in Second\n\tif err := c.Bind(&in); err != nil {\n\t\treturn err\n\t}\n\treturn c.JSON(200, in)\n}\n"
	}

	var sb strings.Builder
	second := ""
	if rs.SecondInner {
		second = "\tinner2 \"" + rs.rootPath() + "/v2/inner\"\n"
	}
	sb.WriteString("package " + rs.Pkg + "\n\nimport (\n\t\"mime/multipart\"\n\n\t\"" + echoPath + "\"\n\t\"" + rs.rootPath() + "/inner\"\n" + second + ")\n\n")
	sb.WriteString("var _ *multipart.FileHeader\n\n")
	sb.WriteString(fmt.Sprintf("const routePrefix = %q\n\n", rs.PkgConst))
	for _, ty := range rs.Types {
		switch ty.Kind {
		case "struct":
			sb.WriteString("type " + ty.Name + " struct {\n")
			for _, f := range ty.Fields {
				sb.WriteString("\t" + f + "\n")
			}
			sb.WriteString("}\n\n")
		case "id":
			sb.WriteString("type " + ty.Name + " int64\n\n")
		case "slice":
			sb.WriteString("type " + ty.Name + " []" + ty.Elem + "\n\n")
		case "map":
			key := ty.Key
			if key == "" {
				key = "string"
			}
			sb.WriteString("type " + ty.Name + " map[" + key + "]" + ty.Elem + "\n\n")
		}
	}
	sb.WriteString("type controller struct{}\n\n")
	sb.WriteString(`func QueryParamInt[T ~int64](echo.Context, string) (T, error) { return 0, nil }
func (controller) QueryParamInt64(echo.Context, string) int64 { return 0 }
func (controller) QueryParamBool(echo.Context, string) bool   { return false }
func QueryParamInt64(echo.Context, string) int64               { return 0 }
func QueryParamBool(echo.Context, string) bool                 { return false }
func FormValueJSON(echo.Context, string, any) error            { return nil }

func helperUse(...any) {}
func helperLog(string)  {}

var _ = helperLog

// middlewares given after the handler in some registrations
func authMw(next func(echo.Context) error) func(echo.Context) error { return next }
func logMw(next func(echo.Context) error) func(echo.Context) error  { return next }

var _, _ = authMw, logMw

`)
	if rs.Decoys {
		sb.WriteString("// decoys: a method with a handler's name on another type, and an unregistered handler\ntype other struct{}\n\nfunc (other) list(echo.Context) error { return nil }\nfunc (other) create(c echo.Context) error {\n\tvar in Filter\n\t_ = c.Bind(&in)\n\treturn c.JSON(200, in)\n}\n\nfunc unusedHandler(c echo.Context) error {\n\tid := c.QueryParam(\"unused\")\n\thelperUse(id)\n\treturn nil\n}\n\n")
	}
	for _, h := range rs.Handlers {
		if h.Inner || h.Kind == "literal" {
			continue
		}
		if h.Kind == "method" {
			recv := "controller"
			if h.Recv != "" {
				recv = h.Recv + " controller"
			}
			sb.WriteString(fmt.Sprintf("func (%s) %s(%s echo.Context) error {\n%s}\n\n", recv, h.Name, h.Ctx, rs.renderBody(h)))
		} else {
			sb.WriteString(fmt.Sprintf("func %s(%s echo.Context) error {\n%s}\n\n", h.Name, h.Ctx, rs.renderBody(h)))
		}
	}
	// the registration function
	var params []string
	params = append(params, "e *echo.Echo")
	for _, ct := range rs.Ctrls {
		ty := "controller"
		if ct.Inner {
			ty = "inner.Controller"
		}
		if ct.Pointer {
			ty = "*" + ty
		}
		params = append(params, ct.Var+" "+ty)
	}
	sb.WriteString("func routes(" + strings.Join(params, ", ") + ") {\n")
	sb.WriteString("\tconst localRoute = \"local/\"\n\thelperUse(localRoute)\n")
	if rs.Decoys {
		sb.WriteString("\te.GETTER(1)\n\te.Use(\"GET\")\n")
	}
	for _, r := range rs.Routes {
		h := rs.Handlers[r.Handler]
		var parts []string
		for _, p := range r.Path {
			switch p.Kind {
			case "lit":
				q := fmt.Sprintf("%q", p.Val)
				if p.Esc {
					q = strings.ReplaceAll(q, "/", `\x2f`)
				}
				parts = append(parts, q)
			default:
				parts = append(parts, p.Name)
			}
		}
		var handler string
		switch h.Kind {
		case "method":
			handler = rs.Ctrls[h.Ctrl].Var + "." + h.Name
		case "func":
			handler = h.Name
		case "innermethod":
			handler = "ct2." + h.Name
		case "innerfunc":
			handler = "inner." + h.Name
		case "literal":
			handler = fmt.Sprintf("func(%s echo.Context) error {\n%s\t}", h.Ctx, strings.ReplaceAll(rs.renderBody(h), "\n\t", "\n\t\t"))
		}
		sb.WriteString(fmt.Sprintf("\te.%s(%s, %s%s)\n", r.Verb, strings.Join(parts, "+"), handler, []string{"", ", authMw", ", authMw, echo.MiddlewareFunc(logMw)"}[r.Mw]))
	}
	if rs.SecondInner {
		sb.WriteString("\te.POST(\"/v2/ping\", inner2.PingV2)\n")
	}
	sb.WriteString("}\n")
	files[routeRootName+"/routes.go"] = sb.String()
	return files
}

// Text renders the route file (samples, hashing).
func (rs *RouteSpec) Text() string {
	fs := rs.Files()
	var names []string
	for n := range fs {
		if !strings.HasSuffix(n, "echo.go") {
			names = append(names, n)
		}
	}
	sort.Strings(names)
	var sb strings.Builder
	for _, n := range names {
		sb.WriteString("// ---- " + n + "\n" + fs[n] + "\n")
	}
	return sb.String()
}

// Spec wraps the rendered files into a Spec (verbatim sources) loadable by fastload.
func (rs *RouteSpec) Spec() *Spec {
	fs := rs.Files()
	root := rs.rootPath()
	sp := &Spec{Pkgs: []*Pkg{
		{Name: rs.Pkg, Path: root, Files: []*File{{Name: "routes.go", Src: fs[routeRootName+"/routes.go"]}}},
		{Name: "echo", Path: root + "/echo", Files: []*File{{Name: "echo.go", Src: fs[routeRootName+"/echo/echo.go"]}}},
		{Name: "inner", Path: root + "/inner", Files: []*File{{Name: "inner.go", Src: fs[routeRootName+"/inner/inner.go"]}}},
	}}
	if rs.SecondInner {
		sp.Pkgs = append(sp.Pkgs, &Pkg{Name: "inner", Path: root + "/v2/inner", Files: []*File{{Name: "inner.go", Src: fs[routeRootName+"/v2/inner/inner.go"]}}})
	}
	return sp
}
