package synth_test

import (
	"testing"

	"verif/internal/fastload"
	"verif/internal/synth"

	"pgregory.net/rapid"
)

func allOpts() *synth.Opts {
	return &synth.Opts{Pointers: true, Unions: 1, RareBasics: true, Recursion: true, SubPkgs: true, Generics: true, Aliases: true,
		Embedded: true, StdTypes: true, Spelling: true, TagVariety: true, EnumStress: true, UnionStress: true, FixedArrays: true, Maps: true, Times: true}
}

func TestTypesProfileTypeChecks(t *testing.T) {
	rapid.Check(t, func(rt *rapid.T) {
		o := allOpts()
		o.Hostile = rapid.Bool().Draw(rt, "hostile")
		spec := synth.GenTypes(rt, o)
		if _, err := fastload.Load(spec); err != nil {
			rt.Fatalf("does not type-check: %v\n%s", err, spec.Text())
		}
	})
}

func TestSQLProfileTypeChecks(t *testing.T) {
	rapid.Check(t, func(rt *rapid.T) {
		spec := synth.GenSQL(rt, &synth.SQLOpts{JSONHeavy: rapid.Bool().Draw(rt, "jh")})
		if _, err := fastload.Load(spec); err != nil {
			rt.Fatalf("does not type-check: %v\n%s", err, spec.Text())
		}
	})
}

func TestRoutesProfileTypeChecks(t *testing.T) {
	rapid.Check(t, func(rt *rapid.T) {
		rs := synth.GenRoutes(rt, &synth.RouteOpts{})
		if _, err := fastload.Load(rs.Spec()); err != nil {
			rt.Fatalf("does not type-check: %v\n%s", err, rs.Text())
		}
	})
}
