// Package synth is the program synthesiser: a plain-data Spec describing a
// small Go module (root package analysed by gomacro, sub-packages, sibling
// files), a renderer producing gofmt-clean source, rapid generators for the
// different profiles, and the reference model the oracles read off the Spec.
package synth

import (
	"fmt"
	"go/format"
	"sort"
	"strings"
)

const Module = "verif.test/org/proj"

// Spec is the complete description of one generated program.
type Spec struct {
	Pkgs []*Pkg `json:"pkgs"` // Pkgs[0] is the analysed (root) package; the others are imported by it (directly or not)
}

type Pkg struct {
	Name  string  `json:"name"`
	Path  string  `json:"path"`          // import path
	Mod   string  `json:"mod,omitempty"` // module path when it is not Module (same value on every package of a Spec)
	Files []*File `json:"files"`         // root: Files[0] is the analysed file "defs.go"
}

type File struct {
	Name   string   `json:"name"`
	Decls  []*Decl  `json:"decls"`
	Consts []*Block `json:"consts,omitempty"` // const blocks, rendered after the type they refer to (see Block.After)
	Raw    string   `json:"raw,omitempty"`    // extra raw source appended (helpers)
	Src    string   `json:"src,omitempty"`    // when set: the complete file text, verbatim (hand-written repros)
}

// Decl kinds
const (
	KStruct  = "struct"
	KNamed   = "named" // type N <TypeRef>
	KEnum    = "enum"  // named basic + const blocks
	KUnion   = "union" // interface
	KAlias   = "alias" // type N = <TypeRef>
	KGeneric = "generic"
)

type Method struct {
	Name string `json:"name"`
	Ptr  bool   `json:"ptr,omitempty"` // pointer receiver
}

type Decl struct {
	Kind  string   `json:"kind"`
	Name  string   `json:"name"`
	Doc   []string `json:"doc,omitempty"`   // comment lines rendered right above the declaration (without the leading "// ")
	Group int      `json:"group,omitempty"` // consecutive decls sharing a non-zero group are rendered inside one `type ( … )`
	// GroupDoc: on the first decl of a group, comment lines rendered above the `type (` line
	GroupDoc []string `json:"group_doc,omitempty"`

	Fields []*Field `json:"fields,omitempty"` // struct, generic
	Type   *TypeRef `json:"type,omitempty"`   // named, alias; enum: basic base type

	// union
	Methods []string `json:"methods,omitempty"` // marker methods of the interface
	Embeds  []string `json:"embeds,omitempty"`  // embedded local interfaces

	// generic struct: type parameter list, e.g. "T ~int64"
	TParams string `json:"tparams,omitempty"`

	// methods declared on this type (marker methods making it a union member, near misses, …)
	Impl []Method `json:"impl,omitempty"`

	// TimeLike: the named type has time.Time as underlying type; the renderer adds JSON methods emitting a string
	TimeLike bool `json:"timelike,omitempty"`
}

type Field struct {
	Name     string   `json:"name"`
	Type     *TypeRef `json:"type"`
	Embedded bool     `json:"embedded,omitempty"`
	Tag      string   `json:"tag,omitempty"`     // raw tag text between the back quotes
	Comment  string   `json:"comment,omitempty"` // trailing comment
}

// TypeRef kinds
const (
	TBasic   = "basic"
	TRef     = "ref" // named type of the program: Pkg (package name, "" = same package as the user) + Name
	TSlice   = "slice"
	TArray   = "array"
	TMap     = "map"
	TPtr     = "ptr"
	TStd     = "std" // Pkg = import path, Name = type name
	TChan    = "chan"
	TFunc    = "func"
	TAnon    = "anonstruct"
	TAny     = "any"
	TError   = "error"
	TComplex = "complex"
)

type TypeRef struct {
	K    string     `json:"k"`
	Name string     `json:"name,omitempty"`
	Pkg  string     `json:"pkg,omitempty"` // for TRef: import path of the declaring package; for TStd: std import path
	Len  int        `json:"len,omitempty"`
	Elem *TypeRef   `json:"elem,omitempty"`
	Key  *TypeRef   `json:"key,omitempty"`
	Args []*TypeRef `json:"args,omitempty"` // generic instantiation arguments
}

// Const blocks ---------------------------------------------------------------

type ConstSpec struct {
	Names   []string `json:"names"`           // one or several names ("_" allowed)
	Type    string   `json:"type,omitempty"`  // explicit type name, "" = none (implicit repetition or untyped)
	Exprs   []string `json:"exprs,omitempty"` // expressions as written; empty = implicit repetition
	Comment string   `json:"comment,omitempty"`
	// BlockComment: the trailing comment is written /* like this */ (same text for go/ast's Text())
	BlockComment bool `json:"block_comment,omitempty"`
	// reference model, filled by the generator: for every name its enum type ("" if not a typed
	// constant of a local named type) and the exact value string as constant.Value.ExactString prints it
	OfType []string `json:"oftype"`
	Vals   []string `json:"vals"`
}

type Block struct {
	Grouped bool         `json:"grouped"` // const ( … ) vs single-line const
	Specs   []*ConstSpec `json:"specs"`
}

// ---------------------------------------------------------------------------
// helpers

func Basic(name string) *TypeRef           { return &TypeRef{K: TBasic, Name: name} }
func Ref(pkgPath, name string) *TypeRef    { return &TypeRef{K: TRef, Pkg: pkgPath, Name: name} }
func Slice(e *TypeRef) *TypeRef            { return &TypeRef{K: TSlice, Elem: e} }
func Array(n int, e *TypeRef) *TypeRef     { return &TypeRef{K: TArray, Len: n, Elem: e} }
func Map(k, e *TypeRef) *TypeRef           { return &TypeRef{K: TMap, Key: k, Elem: e} }
func Ptr(e *TypeRef) *TypeRef              { return &TypeRef{K: TPtr, Elem: e} }
func Std(importPath, name string) *TypeRef { return &TypeRef{K: TStd, Pkg: importPath, Name: name} }
func (s *Spec) Root() *Pkg                 { return s.Pkgs[0] }
func (s *Spec) AnalysedFile() *File        { return s.Pkgs[0].Files[0] }
func (p *Pkg) Dir() string {
	mod := Module
	if p.Mod != "" {
		mod = p.Mod
	}
	return strings.TrimPrefix(strings.TrimPrefix(p.Path, mod), "/")
}

// ModulePath is the module the program lives in.
func (s *Spec) ModulePath() string {
	if s.Pkgs[0].Mod != "" {
		return s.Pkgs[0].Mod
	}
	return Module
}
func (s *Spec) PkgByPath(path string) *Pkg {
	for _, p := range s.Pkgs {
		if p.Path == path {
			return p
		}
	}
	return nil
}

// FindDecl returns the declaration of a named type.
func (s *Spec) FindDecl(pkgPath, name string) *Decl {
	p := s.PkgByPath(pkgPath)
	if p == nil {
		return nil
	}
	for _, f := range p.Files {
		for _, d := range f.Decls {
			if d.Name == name {
				return d
			}
		}
	}
	return nil
}

// qualifier is the name a file uses for the imported package: its package name, or an alias when an
// earlier package of the program has the same name.
func (s *Spec) qualifier(path string) string {
	pk := s.PkgByPath(path)
	if pk == nil {
		return lastElem(path)
	}
	for i, p := range s.Pkgs {
		if p == pk {
			break
		}
		if p.Name == pk.Name {
			return fmt.Sprintf("%s%d", pk.Name, i+1)
		}
	}
	if pk.Name == "time" || pk.Name == "sql" || pk.Name == "json" {
		// a user package named like a standard one the file may import too
		return "user" + pk.Name
	}
	return pk.Name
}

func lastElem(path string) string {
	if i := strings.LastIndexByte(path, '/'); i >= 0 {
		return path[i+1:]
	}
	return path
}

// ---------------------------------------------------------------------------
// rendering

type renderCtx struct {
	pkg     *Pkg
	spec    *Spec
	imports map[string]bool
}

func (rc *renderCtx) typeStr(t *TypeRef) string {
	switch t.K {
	case TBasic:
		return t.Name
	case TRef:
		name := t.Name
		if t.Pkg != "" && t.Pkg != rc.pkg.Path {
			rc.imports[t.Pkg] = true
			name = rc.spec.qualifier(t.Pkg) + "." + name
		}
		if len(t.Args) > 0 {
			args := make([]string, len(t.Args))
			for i, a := range t.Args {
				args[i] = rc.typeStr(a)
			}
			name += "[" + strings.Join(args, ", ") + "]"
		}
		return name
	case TSlice:
		return "[]" + rc.typeStr(t.Elem)
	case TArray:
		return fmt.Sprintf("[%d]%s", t.Len, rc.typeStr(t.Elem))
	case TMap:
		return "map[" + rc.typeStr(t.Key) + "]" + rc.typeStr(t.Elem)
	case TPtr:
		return "*" + rc.typeStr(t.Elem)
	case TStd:
		rc.imports[t.Pkg] = true
		return lastElem(t.Pkg) + "." + t.Name
	case TChan:
		return "chan " + rc.typeStr(t.Elem)
	case TFunc:
		return "func(" + rc.typeStr(t.Elem) + ") error"
	case TAnon:
		return "struct{ X " + rc.typeStr(t.Elem) + " }"
	case TAny:
		return "any"
	case TError:
		return "error"
	case TComplex:
		return "complex128"
	}
	panic("synth: unknown TypeRef kind " + t.K)
}

func (rc *renderCtx) declBody(d *Decl) string {
	var sb strings.Builder
	switch d.Kind {
	case KStruct, KGeneric:
		name := d.Name
		if d.Kind == KGeneric {
			name += "[" + d.TParams + "]"
		}
		sb.WriteString(name + " struct {\n")
		for _, f := range d.Fields {
			if f.Embedded {
				sb.WriteString("\t" + rc.typeStr(f.Type))
			} else {
				sb.WriteString("\t" + f.Name + " " + rc.typeStr(f.Type))
			}
			if f.Tag != "" {
				sb.WriteString(" `" + f.Tag + "`")
			}
			if f.Comment != "" {
				sb.WriteString(" // " + f.Comment)
			}
			sb.WriteString("\n")
		}
		sb.WriteString("}")
	case KNamed, KEnum:
		sb.WriteString(d.Name + " " + rc.typeStr(d.Type))
	case KAlias:
		sb.WriteString(d.Name + " = " + rc.typeStr(d.Type))
	case KUnion:
		sb.WriteString(d.Name + " interface {\n")
		for _, e := range d.Embeds {
			sb.WriteString("\t" + e + "\n")
		}
		for _, m := range d.Methods {
			sb.WriteString("\t" + m + "()\n")
		}
		sb.WriteString("}")
	default:
		panic("synth: unknown decl kind " + d.Kind)
	}
	return sb.String()
}

func docLines(doc []string, indent string) string {
	var sb strings.Builder
	for _, l := range doc {
		if l == "" {
			sb.WriteString(indent + "//\n")
		} else {
			sb.WriteString(indent + "// " + l + "\n")
		}
	}
	return sb.String()
}

func renderBlock(b *Block) string {
	var sb strings.Builder
	line := func(cs *ConstSpec) string {
		s := strings.Join(cs.Names, ", ")
		if cs.Type != "" {
			s += " " + cs.Type
		}
		if len(cs.Exprs) > 0 {
			s += " = " + strings.Join(cs.Exprs, ", ")
		}
		if cs.Comment != "" && cs.BlockComment {
			s += " /* " + cs.Comment + " */"
		} else if cs.Comment != "" {
			s += " // " + cs.Comment
		}
		return s
	}
	if b.Grouped {
		sb.WriteString("const (\n")
		for _, cs := range b.Specs {
			sb.WriteString("\t" + line(cs) + "\n")
		}
		sb.WriteString(")\n\n")
	} else {
		for _, cs := range b.Specs {
			sb.WriteString("const " + line(cs) + "\n")
		}
		sb.WriteString("\n")
	}
	return sb.String()
}

// RenderFile returns the gofmt-formatted source of one file.
func (s *Spec) RenderFile(p *Pkg, f *File) (string, error) {
	if f.Src != "" {
		return f.Src, nil
	}
	rc := &renderCtx{pkg: p, spec: s, imports: map[string]bool{}}
	var body strings.Builder
	decls := f.Decls
	for i := 0; i < len(decls); {
		d := decls[i]
		if d.Group != 0 {
			j := i
			body.WriteString(docLines(d.GroupDoc, ""))
			body.WriteString("type (\n")
			for j < len(decls) && decls[j].Group == d.Group {
				body.WriteString(docLines(decls[j].Doc, "\t"))
				body.WriteString("\t" + strings.ReplaceAll(rc.declBody(decls[j]), "\n", "\n\t") + "\n")
				j++
			}
			body.WriteString(")\n\n")
			i = j
		} else {
			body.WriteString(docLines(d.Doc, ""))
			body.WriteString("type " + rc.declBody(d) + "\n\n")
			i++
		}
	}
	// methods
	for _, d := range decls {
		for _, m := range d.Impl {
			recv := d.Name
			if m.Ptr {
				recv = "*" + recv
			}
			body.WriteString(fmt.Sprintf("func (%s) %s() {}\n", recv, m.Name))
		}
		if d.TimeLike {
			rc.imports["time"] = true
			body.WriteString(fmt.Sprintf(`
func (t %[1]s) MarshalJSON() ([]byte, error) { return time.Time(t).MarshalJSON() }

func (t *%[1]s) UnmarshalJSON(b []byte) error {
	var tt time.Time
	if err := tt.UnmarshalJSON(b); err != nil {
		return err
	}
	*t = %[1]s(tt)
	return nil
}
`, d.Name))
		}
	}
	for _, b := range f.Consts {
		body.WriteString(renderBlock(b))
	}
	if f.Raw != "" {
		for _, imp := range rawImports(f.Raw) {
			rc.imports[imp] = true
		}
		body.WriteString(stripRawImports(f.Raw))
	}

	var sb strings.Builder
	sb.WriteString("package " + p.Name + "\n\n")
	if len(rc.imports) > 0 {
		var imps []string
		for k := range rc.imports {
			imps = append(imps, k)
		}
		sort.Strings(imps)
		sb.WriteString("import (\n")
		for _, imp := range imps {
			if q := s.qualifier(imp); s.PkgByPath(imp) != nil && q != lastElem(imp) {
				sb.WriteString(fmt.Sprintf("\t%s %q\n", q, imp))
			} else {
				sb.WriteString(fmt.Sprintf("\t%q\n", imp))
			}
		}
		sb.WriteString(")\n\n")
	}
	sb.WriteString(body.String())
	out, err := format.Source([]byte(sb.String()))
	if err != nil {
		return sb.String(), fmt.Errorf("synth: rendered file %s/%s does not parse: %v", p.Name, f.Name, err)
	}
	return string(out), nil
}

// raw helper source may start with lines `//import "path"` naming the imports it needs
func rawImports(raw string) (out []string) {
	for _, l := range strings.Split(raw, "\n") {
		if strings.HasPrefix(l, "//import ") {
			out = append(out, strings.Trim(strings.TrimPrefix(l, "//import "), `"`))
		}
	}
	return out
}

func stripRawImports(raw string) string {
	var keep []string
	for _, l := range strings.Split(raw, "\n") {
		if !strings.HasPrefix(l, "//import ") {
			keep = append(keep, l)
		}
	}
	return strings.Join(keep, "\n")
}

// Rendered is one rendered source file.
type Rendered struct {
	PkgPath string
	PkgName string
	Dir     string // relative to the module root
	Name    string
	Src     string
}

// Render renders all files of the spec (deterministic order: packages, then files).
func (s *Spec) Render() ([]Rendered, error) {
	var out []Rendered
	for _, p := range s.Pkgs {
		for _, f := range p.Files {
			src, err := s.RenderFile(p, f)
			if err != nil {
				return nil, err
			}
			out = append(out, Rendered{PkgPath: p.Path, PkgName: p.Name, Dir: p.Dir(), Name: f.Name, Src: src})
		}
	}
	return out, nil
}

// Text renders the whole program as one text (for samples and hashing).
func (s *Spec) Text() string {
	rs, err := s.Render()
	if err != nil {
		return "render error: " + err.Error()
	}
	var sb strings.Builder
	for _, r := range rs {
		sb.WriteString("// ---- " + r.Dir + "/" + r.Name + "\n" + r.Src + "\n")
	}
	return sb.String()
}
