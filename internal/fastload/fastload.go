// Package fastload builds the *packages.Package graph gomacro expects directly
// with go/parser + go/types, instead of going through `go list` (0.5 s per
// call). It is a stand-in for analysis.LoadSource and is therefore guarded by a
// differential fidelity check against the real loader (see props/fidelity.go).
package fastload

import (
	"fmt"
	"go/ast"
	"go/importer"
	"go/parser"
	"go/token"
	"go/types"
	"os"
	"path/filepath"
	"sort"
	"strings"
	"sync"

	"verif/internal/synth"

	"golang.org/x/tools/go/packages"
)

// VirtualRoot is the directory under which the synthesised module pretends to live
// when nothing is written to disk.
const VirtualRoot = "/vsynth/proj"

var (
	stdMu   sync.Mutex
	stdFset = token.NewFileSet()
	stdImp  types.ImporterFrom
	stdPkgs = map[string]*packages.Package{}
	// extra in-memory packages available to every load (e.g. the lib/pq stand-in): import path -> files
	extraSrc  = map[string]map[string]string{}
	extraPkgs = map[string]*packages.Package{}
)

// RegisterExtra makes an extra package (outside the synthesised module and outside std)
// importable by every subsequent Load, from source text.
func RegisterExtra(path string, files map[string]string) {
	stdMu.Lock()
	defer stdMu.Unlock()
	extraSrc[path] = files
}

func stdImporter() types.ImporterFrom {
	if stdImp == nil {
		stdImp = importer.ForCompiler(stdFset, "source", nil).(types.ImporterFrom)
	}
	return stdImp
}

type Loaded struct {
	Fset     *token.FileSet
	Root     *packages.Package
	Pkgs     map[string]*packages.Package // synthesised packages by import path
	RootDir  string                       // directory of the module root
	FileName string                       // absolute path of the analysed file
	Sources  map[string]string            // absolute path -> source
}

type loader struct {
	spec    *synth.Spec
	fset    *token.FileSet
	root    string
	pkgs    map[string]*packages.Package
	loading map[string]bool
	srcs    map[string]string
	errs    []error
	// reversed: see LoadReversed
	reversed bool
}

func (l *loader) Import(path string) (*types.Package, error) { return l.ImportFrom(path, "", 0) }

func (l *loader) ImportFrom(path, dir string, mode types.ImportMode) (*types.Package, error) {
	if p := l.spec.PkgByPath(path); p != nil {
		pk, err := l.load(p)
		if err != nil {
			return nil, err
		}
		return pk.Types, nil
	}
	pk, err := l.external(path)
	if err != nil {
		return nil, err
	}
	return pk.Types, nil
}

// external returns the (shared, cached) package for a std or extra import path.
func (l *loader) external(path string) (*packages.Package, error) {
	stdMu.Lock()
	defer stdMu.Unlock()
	if pk, ok := stdPkgs[path]; ok {
		return pk, nil
	}
	if files, ok := extraSrc[path]; ok {
		if pk, ok := extraPkgs[path]; ok {
			return pk, nil
		}
		var syntax []*ast.File
		var names []string
		for n := range files {
			names = append(names, n)
		}
		sort.Strings(names)
		for _, n := range names {
			f, err := parser.ParseFile(stdFset, "/vextra/"+path+"/"+n, files[n], parser.ParseComments)
			if err != nil {
				return nil, err
			}
			syntax = append(syntax, f)
		}
		conf := types.Config{Importer: stdImporter()}
		tp, err := conf.Check(path, stdFset, syntax, nil)
		if err != nil {
			return nil, err
		}
		pk := &packages.Package{ID: path, Name: tp.Name(), PkgPath: path, Types: tp, Fset: stdFset, Imports: map[string]*packages.Package{}}
		extraPkgs[path] = pk
		return pk, nil
	}
	tp, err := stdImporter().ImportFrom(path, "", 0)
	if err != nil {
		return nil, err
	}
	pk := &packages.Package{ID: path, Name: tp.Name(), PkgPath: path, Types: tp, Fset: stdFset, Imports: map[string]*packages.Package{}}
	stdPkgs[path] = pk
	return pk, nil
}

func (l *loader) load(p *synth.Pkg) (*packages.Package, error) {
	if pk, ok := l.pkgs[p.Path]; ok {
		return pk, nil
	}
	if l.loading[p.Path] {
		return nil, fmt.Errorf("import cycle through %s", p.Path)
	}
	l.loading[p.Path] = true
	defer delete(l.loading, p.Path)

	dir := filepath.Join(l.root, p.Dir())
	pk := &packages.Package{
		ID: p.Path, Name: p.Name, PkgPath: p.Path, Fset: l.fset,
		Imports:    map[string]*packages.Package{},
		TypesSizes: types.SizesFor("gc", "amd64"),
		TypesInfo: &types.Info{
			Types:        map[ast.Expr]types.TypeAndValue{},
			Defs:         map[*ast.Ident]types.Object{},
			Uses:         map[*ast.Ident]types.Object{},
			Implicits:    map[ast.Node]types.Object{},
			Instances:    map[*ast.Ident]types.Instance{},
			Scopes:       map[ast.Node]*types.Scope{},
			Selections:   map[*ast.SelectorExpr]*types.Selection{},
			FileVersions: map[*ast.File]string{},
		},
	}
	// go/packages parses the files of a package concurrently: which file enters the FileSet first (and so
	// how token positions of different files compare) is not fixed. The reversed mode parses them last to
	// first; Syntax and GoFiles keep the order of the file list, as with the real loader.
	parsed := make([]*ast.File, len(p.Files))
	order := make([]int, len(p.Files))
	for i := range order {
		order[i] = i
		if l.reversed {
			order[i] = len(p.Files) - 1 - i
		}
	}
	for _, i := range order {
		f := p.Files[i]
		src, err := l.spec.RenderFile(p, f)
		if err != nil {
			return nil, err
		}
		abs := filepath.Join(dir, f.Name)
		l.srcs[abs] = src
		af, err := parser.ParseFile(l.fset, abs, src, parser.ParseComments)
		if err != nil {
			return nil, err
		}
		parsed[i] = af
	}
	for i, f := range p.Files {
		abs := filepath.Join(dir, f.Name)
		pk.Syntax = append(pk.Syntax, parsed[i])
		pk.GoFiles = append(pk.GoFiles, abs)
		pk.CompiledGoFiles = append(pk.CompiledGoFiles, abs)
	}
	var firstErr error
	conf := types.Config{
		Importer: l,
		Error: func(err error) {
			if firstErr == nil {
				firstErr = err
			}
		},
		Sizes: pk.TypesSizes,
	}
	tp, _ := conf.Check(p.Path, l.fset, pk.Syntax, pk.TypesInfo)
	if firstErr != nil {
		return nil, firstErr
	}
	pk.Types = tp
	// imports map
	for _, imp := range tp.Imports() {
		if sp := l.spec.PkgByPath(imp.Path()); sp != nil {
			ipk, err := l.load(sp)
			if err != nil {
				return nil, err
			}
			pk.Imports[imp.Path()] = ipk
		} else {
			ipk, err := l.external(imp.Path())
			if err != nil {
				return nil, err
			}
			pk.Imports[imp.Path()] = ipk
		}
	}
	l.pkgs[p.Path] = pk
	return pk, nil
}

// Load type-checks the spec in process. A type error in the *rendered source* is
// returned as error (a synthesiser bug, never a verdict).
func Load(spec *synth.Spec) (*Loaded, error) { return LoadAt(spec, VirtualRoot) }

// LoadAt is Load with the module root directory given (files need not exist).
func LoadAt(spec *synth.Spec, rootDir string) (*Loaded, error) { return loadAt(spec, rootDir, false) }

// LoadReversed is Load with the other legal order of entry into the FileSet: imported packages before the
// analysed one, and the files of every package last to first. Token positions of different files then
// compare the other way round; nothing else changes.
func LoadReversed(spec *synth.Spec) (*Loaded, error) { return loadAt(spec, VirtualRoot, true) }

func loadAt(spec *synth.Spec, rootDir string, reversed bool) (*Loaded, error) {
	l := &loader{spec: spec, fset: token.NewFileSet(), root: rootDir, pkgs: map[string]*packages.Package{}, loading: map[string]bool{}, srcs: map[string]string{}, reversed: reversed}
	if reversed {
		for i := len(spec.Pkgs) - 1; i > 0; i-- {
			if _, err := l.load(spec.Pkgs[i]); err != nil {
				return nil, err
			}
		}
	}
	root, err := l.load(spec.Root())
	if err != nil {
		return nil, err
	}
	return &Loaded{
		Fset: l.fset, Root: root, Pkgs: l.pkgs, RootDir: rootDir, Sources: l.srcs,
		FileName: filepath.Join(rootDir, spec.Root().Dir(), spec.AnalysedFile().Name),
	}, nil
}

// WriteModule writes the spec as a real module under dir (go.mod + sources) and
// returns the absolute path of the analysed file.
func WriteModule(spec *synth.Spec, dir string) (string, error) {
	rs, err := spec.Render()
	if err != nil {
		return "", err
	}
	if err := os.MkdirAll(dir, 0o755); err != nil {
		return "", err
	}
	gomod := "module " + spec.ModulePath() + "\n\ngo 1.23.0\n"
	for _, r := range rs {
		if strings.Contains(r.Src, `"github.com/lib/pq"`) {
			// a source file imports lib/pq: resolved by the offline stand-in
			gomod += "\nrequire github.com/lib/pq v0.0.0\nreplace github.com/lib/pq => /verif/engine/pq\n"
			break
		}
	}
	if err := os.WriteFile(filepath.Join(dir, "go.mod"), []byte(gomod), 0o644); err != nil {
		return "", err
	}
	for _, r := range rs {
		d := filepath.Join(dir, r.Dir)
		if err := os.MkdirAll(d, 0o755); err != nil {
			return "", err
		}
		if err := os.WriteFile(filepath.Join(d, r.Name), []byte(r.Src), 0o644); err != nil {
			return "", err
		}
	}
	return filepath.Join(dir, spec.Root().Dir(), spec.AnalysedFile().Name), nil
}

// CheckWith type-checks the root package's source files together with extra
// files (generated code) and returns the type errors (empty = compiles).
func (ld *Loaded) CheckWith(spec *synth.Spec, extra map[string]string) []string {
	l := &loader{spec: spec, fset: token.NewFileSet(), root: ld.RootDir, pkgs: map[string]*packages.Package{}, loading: map[string]bool{}, srcs: map[string]string{}}
	// reuse already loaded dependency packages (same type identities are not required here)
	var files []*ast.File
	var errs []string
	root := spec.Root()
	dir := filepath.Join(ld.RootDir, root.Dir())
	var names []string
	for _, f := range root.Files {
		abs := filepath.Join(dir, f.Name)
		af, err := parser.ParseFile(l.fset, abs, ld.Sources[abs], parser.ParseComments)
		if err != nil {
			return []string{"source: " + err.Error()}
		}
		files = append(files, af)
	}
	for n := range extra {
		names = append(names, n)
	}
	sort.Strings(names)
	for _, n := range names {
		af, err := parser.ParseFile(l.fset, filepath.Join(dir, n), extra[n], parser.ParseComments)
		if err != nil {
			return []string{"syntax: " + err.Error()}
		}
		files = append(files, af)
	}
	// the root package itself must not be resolved through l.load (it would be re-checked without extra)
	conf := types.Config{
		Importer: importerFunc(func(path string) (*types.Package, error) {
			if path == root.Path {
				return nil, fmt.Errorf("generated code imports its own package %s", path)
			}
			return l.ImportFrom(path, "", 0)
		}),
		Error: func(err error) {
			if len(errs) < 10 {
				errs = append(errs, strings.ReplaceAll(err.Error(), ld.RootDir+"/", ""))
			}
		},
	}
	conf.Check(root.Path, l.fset, files, nil)
	return errs
}

type importerFunc func(path string) (*types.Package, error)

func (f importerFunc) Import(path string) (*types.Package, error) { return f(path) }
