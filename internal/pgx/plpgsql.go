package pgx

import "strings"

// parseBody parses a PL/pgSQL function body occupying src[from:to].
// params are the (lower-cased) names of the function parameters, which are
// assignable variables of the body.
func parseBody(src string, from, to int, params []string) (*Body, error) {
	toks, _, err := lexRange(src, from, to)
	if err != nil {
		return nil, err
	}
	if err := checkBalance(src, toks); err != nil {
		return nil, err
	}
	p := newParser(src, toks, to)
	vars := map[string]bool{}
	for _, n := range params {
		vars[n] = true
	}
	body := &Body{}

	if t := p.peek(); t.isOp("<<") {
		return nil, p.unsupported(t, "block labels are not modelled")
	}
	if p.acceptKw("DECLARE") {
		for !p.isKw("BEGIN") {
			t := p.peek()
			if t.kind == tEOF {
				return nil, p.syntaxErr(t, "DECLARE section without BEGIN")
			}
			if t.kind == tQIdent {
				return nil, p.unsupported(t, "quoted identifiers are not modelled")
			}
			if t.kind != tIdent {
				return nil, p.syntaxErr(t, "expected a variable name, found %s", t.describe())
			}
			p.next()
			if n := p.peek(); n.isKw("CONSTANT") || n.isKw("ALIAS") || n.isKw("CURSOR") || n.isKw("NO") || n.isKw("SCROLL") {
				return nil, p.unsupported(n, "%s declarations are not modelled", n.up)
			}
			ty, err := p.parseType()
			if err != nil {
				return nil, err
			}
			d := &VarDecl{Name: t.text, Type: ty}
			if n := p.peek(); n.isKw("NOT") || n.isKw("COLLATE") {
				return nil, p.unsupported(n, "%s in a declaration is not modelled", n.up)
			}
			if n := p.peek(); n.isOp(":=") || n.isOp("=") || n.isKw("DEFAULT") {
				p.next()
				d.Init, err = p.parseExpr()
				if err != nil {
					return nil, err
				}
			}
			if !p.acceptOp(";") {
				return nil, p.unexpected("\";\" after the declaration of " + t.text)
			}
			body.Decls = append(body.Decls, d)
			vars[Fold(d.Name)] = true
		}
	}
	if !p.acceptKw("BEGIN") {
		return nil, p.unexpectedStmt("BEGIN")
	}
	body.Stmts, err = p.parseStmts(vars)
	if err != nil {
		return nil, err
	}
	if p.isKw("EXCEPTION") {
		return nil, p.unsupported(p.peek(), "EXCEPTION blocks are not modelled")
	}
	if !p.acceptKw("END") {
		return nil, p.unexpectedStmt("END")
	}
	if t := p.peek(); t.kind == tIdent {
		return nil, p.unsupported(t, "block labels are not modelled")
	}
	p.acceptOp(";") // optional after the outermost END
	if !p.atEOF() {
		return nil, p.syntaxErr(p.peek(), "unexpected %s after the final END", p.peek().describe())
	}
	return body, nil
}

// unexpectedStmt reports the current token where a block keyword was needed.
func (p *parser) unexpectedStmt(want string) error {
	t := p.peek()
	return p.syntaxErr(t, "expected %s, found %s", want, t.describe())
}

// blockEnders stop a statement list.
var blockEnders = map[string]bool{
	"END": true, "ELSE": true, "ELSIF": true, "ELSEIF": true, "WHEN": true, "EXCEPTION": true,
}

// unsupportedStmts are statement keywords of PL/pgSQL outside the subset.
var unsupportedStmts = map[string]bool{
	"LOOP": true, "WHILE": true, "FOR": true, "FOREACH": true, "EXIT": true, "CONTINUE": true,
	"PERFORM": true, "EXECUTE": true, "SELECT": true, "INSERT": true, "UPDATE": true,
	"DELETE": true, "GET": true, "OPEN": true, "FETCH": true, "CLOSE": true, "MOVE": true,
	"BEGIN": true, "DECLARE": true, "ASSERT": true, "CALL": true, "WITH": true, "COMMIT": true,
	"ROLLBACK": true, "MERGE": true, "CREATE": true, "DROP": true, "ALTER": true, "SET": true,
	"TRUNCATE": true, "LOCK": true, "DO": true, "VALUES": true, "TABLE": true, "COPY": true,
	"GRANT": true, "REVOKE": true, "NOTIFY": true, "ANALYZE": true, "EXPLAIN": true,
}

func (p *parser) parseStmts(vars map[string]bool) ([]Stmt, error) {
	if err := p.enter(); err != nil {
		return nil, err
	}
	defer p.leave()
	var out []Stmt
	for {
		t := p.peek()
		if t.kind == tEOF {
			return nil, p.syntaxErr(t, "unexpected end of the function body (missing END)")
		}
		if t.kind == tIdent && blockEnders[t.up] {
			return out, nil
		}
		st, err := p.parseStmt(vars)
		if err != nil {
			return nil, err
		}
		out = append(out, st)
	}
}

func (p *parser) endStmt(what string) error {
	if p.acceptOp(";") {
		return nil
	}
	return p.unexpected("\";\" after " + what)
}

func (p *parser) parseStmt(vars map[string]bool) (Stmt, error) {
	t := p.peek()
	switch t.kind {
	case tIdent:
	case tQIdent, tParam:
		return nil, p.unsupported(t, "statement starting with %s is not modelled", t.describe())
	case tOp:
		if t.text == "<<" {
			return nil, p.unsupported(t, "statement labels are not modelled")
		}
		return nil, p.syntaxErr(t, "expected a statement, found %s", t.describe())
	default:
		return nil, p.syntaxErr(t, "expected a statement, found %s", t.describe())
	}

	switch t.up {
	case "IF":
		p.next()
		st := &IfStmt{}
		for {
			cond, err := p.parseExpr()
			if err != nil {
				return nil, err
			}
			if !p.acceptKw("THEN") {
				return nil, p.unexpected("THEN")
			}
			body, err := p.parseStmts(vars)
			if err != nil {
				return nil, err
			}
			st.Branches = append(st.Branches, CondBlock{Cond: cond, Body: body})
			if p.acceptKw("ELSIF") || p.acceptKw("ELSEIF") {
				continue
			}
			break
		}
		if p.acceptKw("ELSE") {
			st.HasElse = true
			var err error
			st.Else, err = p.parseStmts(vars)
			if err != nil {
				return nil, err
			}
		}
		if !p.acceptKw("END") {
			return nil, p.syntaxErr(p.peek(), "expected END IF, found %s", p.peek().describe())
		}
		if !p.acceptKw("IF") {
			return nil, p.syntaxErr(p.peek(), "IF without END IF (found END %s)", p.peek().describe())
		}
		if err := p.endStmt("END IF"); err != nil {
			return nil, err
		}
		return st, nil

	case "CASE":
		p.next()
		if !p.isKw("WHEN") {
			if p.isOp(";") || p.isKw("END") || p.isKw("ELSE") || p.atEOF() {
				return nil, p.syntaxErr(p.peek(), "CASE without WHEN")
			}
			return nil, p.unsupported(t, "CASE with an operand (simple CASE) is not modelled")
		}
		st := &CaseStmt{}
		for p.acceptKw("WHEN") {
			cond, err := p.parseExpr()
			if err != nil {
				return nil, err
			}
			if !p.acceptKw("THEN") {
				return nil, p.unexpected("THEN")
			}
			body, err := p.parseStmts(vars)
			if err != nil {
				return nil, err
			}
			st.Whens = append(st.Whens, CondBlock{Cond: cond, Body: body})
		}
		if p.acceptKw("ELSE") {
			st.HasElse = true
			var err error
			st.Else, err = p.parseStmts(vars)
			if err != nil {
				return nil, err
			}
		}
		if !p.acceptKw("END") {
			return nil, p.syntaxErr(p.peek(), "expected END CASE, found %s", p.peek().describe())
		}
		if !p.acceptKw("CASE") {
			return nil, p.syntaxErr(p.peek(), "CASE without END CASE (found END %s)", p.peek().describe())
		}
		if err := p.endStmt("END CASE"); err != nil {
			return nil, err
		}
		return st, nil

	case "RETURN":
		p.next()
		if n := p.peek(); n.isKw("QUERY") || n.isKw("NEXT") {
			return nil, p.unsupported(n, "RETURN %s is not modelled", n.up)
		}
		if p.isOp(";") {
			return nil, p.unsupported(t, "RETURN without an expression is not modelled")
		}
		x, err := p.parseExpr()
		if err != nil {
			return nil, err
		}
		if err := p.endStmt("RETURN"); err != nil {
			return nil, err
		}
		return &ReturnStmt{X: x}, nil

	case "RAISE":
		return p.parseRaise()

	case "NULL":
		p.next()
		if err := p.endStmt("NULL"); err != nil {
			return nil, err
		}
		return &NullStmt{}, nil
	}

	// assignment: ident (:= | =) expr ;
	if n := p.peekAt(1); n.isOp(":=") || n.isOp("=") {
		if !vars[Fold(t.text)] {
			// PL/pgSQL: `"x" is not a known variable`, reported with the
			// syntax-error class when the function is created.
			return nil, p.syntaxErr(t, "%q is not a known variable", t.text)
		}
		p.next()
		p.next()
		x, err := p.parseExpr()
		if err != nil {
			return nil, err
		}
		if err := p.endStmt("the assignment"); err != nil {
			return nil, err
		}
		return &AssignStmt{Name: t.text, X: x}, nil
	}
	if n := p.peekAt(1); n.isOp(".") || n.isOp("[") {
		return nil, p.unsupported(t, "assignment to a field or array element is not modelled")
	}
	if unsupportedStmts[t.up] {
		return nil, p.unsupported(t, "%s statement is not modelled", t.up)
	}
	if t.up == "THEN" {
		return nil, p.syntaxErr(t, "unexpected THEN")
	}
	return nil, p.unsupported(t, "statement starting with %s is not modelled", t.describe())
}

var raiseLevels = map[string]bool{
	"DEBUG": true, "LOG": true, "INFO": true, "NOTICE": true, "WARNING": true, "EXCEPTION": true,
}

// parseRaise: RAISE [level] 'format' {, expr} ;
func (p *parser) parseRaise() (Stmt, error) {
	raise := p.next()
	st := &RaiseStmt{Level: "EXCEPTION"}
	if t := p.peek(); t.kind == tIdent && raiseLevels[t.up] {
		st.Level = t.up
		p.next()
	}
	t := p.peek()
	switch {
	case t.kind == tString:
		p.next()
		st.Format = t.val
	case t.isOp(";"):
		return nil, p.unsupported(raise, "RAISE without a message (re-raise / level only) is not modelled")
	case t.kind == tIdent:
		return nil, p.unsupported(t, "RAISE with a condition name, SQLSTATE or USING is not modelled")
	default:
		return nil, p.syntaxErr(t, "expected a format string after RAISE, found %s", t.describe())
	}
	for p.acceptOp(",") {
		e, err := p.parseExpr()
		if err != nil {
			return nil, err
		}
		st.Args = append(st.Args, e)
	}
	if p.isKw("USING") {
		return nil, p.unsupported(p.peek(), "RAISE ... USING is not modelled")
	}
	if err := p.endStmt("RAISE"); err != nil {
		return nil, err
	}
	// placeholders: a single % consumes an argument, %% is a literal %
	n := 0
	f := st.Format
	for i := 0; i < len(f); i++ {
		if f[i] == '%' {
			if i+1 < len(f) && f[i+1] == '%' {
				i++
				continue
			}
			n++
		}
	}
	if n > len(st.Args) {
		return nil, p.syntaxErr(raise, "too few parameters specified for RAISE")
	}
	if n < len(st.Args) {
		return nil, p.syntaxErr(raise, "too many parameters specified for RAISE")
	}
	return st, nil
}

// formatRaise substitutes the arguments into the RAISE format.
func formatRaise(format string, args []string) string {
	var b strings.Builder
	k := 0
	for i := 0; i < len(format); i++ {
		if format[i] == '%' {
			if i+1 < len(format) && format[i+1] == '%' {
				b.WriteByte('%')
				i++
				continue
			}
			if k < len(args) {
				b.WriteString(args[k])
				k++
			}
			continue
		}
		b.WriteByte(format[i])
	}
	return b.String()
}
