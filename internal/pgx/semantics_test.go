package pgx

import (
	"errors"
	"strings"
	"testing"
)

// evalText parses and evaluates an expression; env values may be given as
// JSON text through the j() helper.
func evalText(t *testing.T, s *Script, src string, env map[string]Value) (Value, error) {
	t.Helper()
	e, err := ParseExpr(src)
	if err != nil {
		t.Fatalf("ParseExpr(%q): %v", src, err)
	}
	return s.Eval(e, env)
}

func j(text string) JSON {
	v, err := ParseJSON(text)
	if err != nil {
		panic(err)
	}
	return v
}

type semCase struct {
	src  string
	env  map[string]Value
	want Value  // compared with valuesEqual
	err  string // "" | "raised" | "unsupported" | "undefined_function" | "undefined_column"
}

func valuesEqual(a, b Value) bool {
	ja, ok1 := a.(JSON)
	jb, ok2 := b.(JSON)
	if ok1 || ok2 {
		if !ok1 || !ok2 {
			return false
		}
		eq, err := jsonEqual(ja.V, jb.V)
		return err == nil && eq
	}
	return a == b
}

func runSem(t *testing.T, s *Script, cases []semCase) {
	t.Helper()
	for _, c := range cases {
		got, err := evalText(t, s, c.src, c.env)
		switch c.err {
		case "":
			if err != nil {
				t.Errorf("%s: unexpected error %v", c.src, err)
			} else if !valuesEqual(got, c.want) {
				t.Errorf("%s = %#v, want %#v", c.src, got, c.want)
			}
		case "raised":
			var re *RaisedError
			if !errors.As(err, &re) {
				t.Errorf("%s: got (%#v, %v), want a RaisedError", c.src, got, err)
			}
		case "unsupported":
			var ue *Unsupported
			if !errors.As(err, &ue) {
				t.Errorf("%s: got (%#v, %v), want Unsupported", c.src, got, err)
			}
		case "undefined_function":
			var ue *UndefinedFunction
			if !errors.As(err, &ue) {
				t.Errorf("%s: got (%#v, %v), want UndefinedFunction", c.src, got, err)
			}
		case "undefined_column":
			var ue *UndefinedColumn
			if !errors.As(err, &ue) {
				t.Errorf("%s: got (%#v, %v), want UndefinedColumn", c.src, got, err)
			}
		}
	}
}

func d(text string) map[string]Value { return map[string]Value{"data": j(text)} }

func TestSemJsonbTypeof(t *testing.T) {
	runSem(t, &Script{}, []semCase{
		{src: "jsonb_typeof(data)", env: d(`{}`), want: "object"},
		{src: "jsonb_typeof(data)", env: d(`[]`), want: "array"},
		{src: "jsonb_typeof(data)", env: d(`"s"`), want: "string"},
		{src: "jsonb_typeof(data)", env: d(`1.5`), want: "number"},
		{src: "jsonb_typeof(data)", env: d(`true`), want: "boolean"},
		{src: "jsonb_typeof(data)", env: d(`null`), want: "null"},
		{src: "jsonb_typeof(data)", env: map[string]Value{"data": nil}, want: nil},
		{src: "jsonb_typeof(NULL)", want: nil},
		{src: "JSONB_TYPEOF(Data)", env: d(`1`), want: "number"}, // case-insensitive names
		{src: `jsonb_typeof('{"a":1}')`, want: "object"},         // unknown-typed constant read as jsonb
		{src: `jsonb_typeof('{')`, err: "raised"},
		{src: "jsonb_typeof(t)", env: map[string]Value{"t": "text"}, err: "raised"},
		{src: "jsonb_typeof(1)", err: "raised"},
		{src: "jsonb_typeof()", err: "undefined_function"},
		{src: "jsonb_typeof(data, data)", env: d(`1`), err: "undefined_function"},
	})
}

func TestSemArrow(t *testing.T) {
	doc := `{"k": 1, "n": null, "s": "str", "o": {"x": [1, 2]}, "a": [10, "b", null]}`
	runSem(t, &Script{}, []semCase{
		{src: "data -> 'k'", env: d(doc), want: j(`1`)},
		{src: "data -> 'missing'", env: d(doc), want: nil},
		{src: "data -> 'n'", env: d(doc), want: j(`null`)}, // jsonb null, not SQL NULL
		{src: "(data -> 'n') IS NULL", env: d(doc), want: false},
		{src: "(data -> 'missing') IS NULL", env: d(doc), want: true},
		{src: "data -> 'k'", env: d(`[1]`), want: nil}, // not an object
		{src: "data -> 'k'", env: d(`"k"`), want: nil},
		{src: "data -> 'k'", env: map[string]Value{"data": nil}, want: nil},
		{src: "data -> NULL", env: d(doc), want: nil},
		{src: "data -> 'o' -> 'x' -> 1", env: d(doc), want: j(`2`)}, // left associative
		{src: "data -> 'a' -> 0", env: d(doc), want: j(`10`)},
		{src: "data -> 'a' -> -1", env: d(doc), want: j(`null`)},
		{src: "data -> 'a' -> 3", env: d(doc), want: nil},
		{src: "data -> 0", env: d(doc), want: nil}, // integer on an object
		{src: "data -> TRUE", env: d(doc), err: "raised"},
		{src: "t -> 'k'", env: map[string]Value{"t": "text"}, err: "raised"},

		{src: "data ->> 'k'", env: d(doc), want: "1"},
		{src: "data ->> 's'", env: d(doc), want: "str"},
		{src: "data ->> 'n'", env: d(doc), want: nil}, // JSON null -> SQL NULL
		{src: "data ->> 'missing'", env: d(doc), want: nil},
		{src: "data ->> 'o'", env: d(doc), want: `{"x": [1, 2]}`},
		{src: "data ->> 'a'", env: d(doc), want: `[10, "b", null]`},
		{src: "data ->> 'k'", env: d(`5`), want: nil},
		{src: "data -> 'a' ->> 1", env: d(doc), want: "b"},
		{src: "data->>'Kind' = 'A'", env: d(`{"Kind": "A"}`), want: true},
	})
}

func TestSemPathText(t *testing.T) {
	runSem(t, &Script{}, []semCase{
		{src: "data #>> '{}'", env: d(`"abc"`), want: "abc"},
		{src: "data #>> '{}'", env: d(`1.50`), want: "1.50"},
		{src: "data #>> '{}'", env: d(`1e2`), want: "100"},
		{src: "data #>> '{}'", env: d(`true`), want: "true"},
		{src: "data #>> '{}'", env: d(`null`), want: nil},
		{src: "data #>> '{}'", env: d(`{"b": 1, "aa": [1,2]}`), want: `{"b": 1, "aa": [1, 2]}`},
		{src: "data #>> '{}'", env: map[string]Value{"data": nil}, want: nil},
		{src: "data #>> '{a,1}'", env: d(`{"a": [5, "x"]}`), want: "x"},
		{src: "data #>> '{a,7}'", env: d(`{"a": [5, "x"]}`), want: nil},
		{src: "data #>> 'oops'", env: d(`1`), err: "raised"},
		{src: "data #>> 1", env: d(`1`), err: "raised"},
		{src: "data #>> p", env: map[string]Value{"data": j(`1`), "p": "{}"}, err: "unsupported"},
		{src: "data#>>'{}' IN ('a', 'b')", env: d(`"b"`), want: true},
	})
}

func TestSemCasts(t *testing.T) {
	runSem(t, &Script{}, []semCase{
		{src: "data::int", env: d(`3`), want: int64(3)},
		{src: "data::integer", env: d(`2.5`), want: int64(3)}, // numeric rounding: ties away from zero
		{src: "data::int", env: d(`-2.5`), want: int64(-3)},
		{src: "data::int", env: d(`2.4999`), want: int64(2)},
		{src: "data::int", env: d(`0.5`), want: int64(1)},
		{src: "data::int", env: d(`0.04e1`), want: int64(0)},
		{src: "data::int", env: d(`1e3`), want: int64(1000)},
		{src: "data::int", env: d(`2147483647`), want: int64(2147483647)},
		{src: "data::int", env: d(`2147483647.4`), want: int64(2147483647)},
		{src: "data::int", env: d(`2147483647.5`), err: "raised"},
		{src: "data::int", env: d(`2147483648`), err: "raised"},
		{src: "data::int", env: d(`-2147483648`), want: int64(-2147483648)},
		{src: "data::int", env: d(`-2147483649`), err: "raised"},
		{src: "data::int", env: d(`1e400`), err: "raised"},
		{src: "data::int", env: d(`1e-400`), want: int64(0)},
		{src: "data::int", env: d(`1e999999999999`), err: "raised"},
		{src: "data::int", env: d(`"3"`), err: "raised"}, // cannot cast jsonb string to type integer
		{src: "data::int", env: d(`true`), err: "raised"},
		{src: "data::int", env: d(`null`), err: "raised"},
		{src: "data::int", env: d(`[1]`), err: "raised"},
		{src: "data::int", env: d(`{}`), err: "raised"},
		{src: "data::int", env: map[string]Value{"data": nil}, want: nil},
		{src: "NULL::int", want: nil},
		{src: "data::smallint", env: d(`40000`), err: "raised"},
		{src: "data::bigint", env: d(`4000000000`), want: int64(4000000000)},
		{src: "'12'::int", want: int64(12)},
		{src: "' -12 '::int", want: int64(-12)},
		{src: "t::int", env: map[string]Value{"t": "12"}, want: int64(12)},
		{src: "'1.5'::int", err: "raised"},
		{src: "'abc'::int", err: "raised"},
		{src: "''::int", err: "raised"},
		{src: "1.5::int", want: int64(2)},
		{src: "(-1.5)::int", want: int64(-2)},
		{src: "-1.5::int", want: int64(-2)}, // -(1.5::int)
		{src: "TRUE::int", want: int64(1)},

		{src: "data::text", env: d(`{"a":1}`), want: `{"a": 1}`},
		{src: "data::text", env: d(`"s"`), want: `"s"`},
		{src: "12::text", want: "12"},
		{src: "TRUE::text", want: "true"},
		{src: "'x'::text", want: "x"},
		{src: "1.5::text", err: "unsupported"},

		{src: "data::boolean", env: d(`true`), want: true},
		{src: "data::bool", env: d(`1`), err: "raised"},
		{src: "'yes'::boolean", want: true},
		{src: "'maybe'::boolean", err: "raised"},
		{src: "0::boolean", want: false},

		{src: `'{"a": [1]}'::jsonb -> 'a'`, want: j(`[1]`)},
		{src: `'{'::jsonb`, err: "raised"},
		{src: "1::jsonb", err: "raised"},
		{src: "data::jsonb", env: d(`1`), want: j(`1`)},

		{src: "data::numeric", env: d(`1.5`), want: 1.5},
		{src: "data::numeric = 1.50", env: d(`1.5`), want: true},
		{src: "data::numeric", env: d(`"1.5"`), err: "raised"},
		{src: "'1.5'::numeric", want: 1.5},
		{src: "'x'::numeric", err: "raised"},
		{src: "3::numeric", want: 3.0},

		{src: "data::date", env: d(`"2020-01-01"`), err: "unsupported"},
		{src: "data::timestamp (0) with time zone", env: d(`1`), err: "unsupported"},
		{src: "data::real", env: d(`1`), err: "unsupported"},
		{src: "data::int::text", env: d(`7`), want: "7"},
	})
}

func TestSemJsonbArrayLength(t *testing.T) {
	runSem(t, &Script{}, []semCase{
		{src: "jsonb_array_length(data)", env: d(`[]`), want: int64(0)},
		{src: "jsonb_array_length(data)", env: d(`[1, [2, 3]]`), want: int64(2)},
		{src: "jsonb_array_length(data)", env: d(`{}`), err: "raised"},
		{src: "jsonb_array_length(data)", env: d(`"s"`), err: "raised"},
		{src: "jsonb_array_length(data)", env: d(`null`), err: "raised"},
		{src: "jsonb_array_length(data)", env: map[string]Value{"data": nil}, want: nil},
		{src: "jsonb_array_length(data) = 5", env: d(`[1,2,3,4,5]`), want: true},
	})
}

func TestSemSubSelect(t *testing.T) {
	s, err := ParseScript(`
CREATE FUNCTION is_num (data jsonb) RETURNS boolean AS $$
BEGIN
	RETURN jsonb_typeof(data) = 'number';
END;
$$ LANGUAGE plpgsql;
CREATE FUNCTION boom (data jsonb) RETURNS boolean AS $$
BEGIN
	RAISE EXCEPTION 'boom %', data;
END;
$$ LANGUAGE plpgsql;`)
	if err != nil {
		t.Fatal(err)
	}
	runSem(t, s, []semCase{
		{src: "(SELECT bool_and(is_num(value)) FROM jsonb_array_elements(data))", env: d(`[1, 2]`), want: true},
		{src: "(SELECT bool_and(is_num(value)) FROM jsonb_array_elements(data))", env: d(`[1, "2"]`), want: false},
		{src: "(SELECT bool_and(is_num(value)) FROM jsonb_array_elements(data))", env: d(`[]`), want: nil}, // no rows
		{src: "(SELECT bool_and(is_num(value)) FROM jsonb_array_elements(data))", env: map[string]Value{"data": nil}, want: nil},
		{src: "(SELECT bool_and(is_num(value)) FROM jsonb_array_elements(data))", env: d(`{}`), err: "raised"},
		{src: "(SELECT bool_and(is_num(value)) FROM jsonb_array_elements(data))", env: d(`3`), err: "raised"},
		{src: "(SELECT bool_and(is_num(value)) FROM jsonb_array_elements(data))", env: d(`null`), err: "raised"},
		{src: "(SELECT bool_and(is_num(value)) FROM jsonb_array_elements(t))", env: map[string]Value{"t": "x"}, err: "raised"},

		{src: "(SELECT bool_and(is_num(value)) FROM jsonb_each(data))", env: d(`{"a": 1, "b": 2}`), want: true},
		{src: "(SELECT bool_and(is_num(value)) FROM jsonb_each(data))", env: d(`{"a": 1, "b": null}`), want: false},
		{src: "(SELECT bool_and(key IN ('a', 'b')) FROM jsonb_each(data))", env: d(`{"a": 1, "b": 2}`), want: true},
		{src: "(SELECT bool_and(key IN ('a')) FROM jsonb_each(data))", env: d(`{"a": 1, "b": 2}`), want: false},
		{src: "(SELECT bool_and(TRUE) FROM jsonb_each(data))", env: d(`{}`), want: nil},
		{src: "(SELECT bool_and(TRUE) FROM jsonb_each(data))", env: map[string]Value{"data": nil}, want: nil},
		{src: "(SELECT bool_and(TRUE) FROM jsonb_each(data))", env: d(`[]`), err: "raised"},
		{src: "(SELECT bool_and(TRUE) FROM jsonb_each(data))", env: d(`"s"`), err: "raised"},

		// bool_and ignores NULL inputs
		{src: "(SELECT bool_and(NULL) FROM jsonb_array_elements(data))", env: d(`[1, 2]`), want: nil},
		{src: "(SELECT bool_and(value = '1') FROM jsonb_array_elements(data))", env: d(`[1, 1.0]`), want: true},
		{src: "(SELECT bool_and(is_num(value -> 'x')) FROM jsonb_array_elements(data))", env: d(`[{"x": 1}, {}]`), want: true},    // true, NULL
		{src: "(SELECT bool_and(is_num(value -> 'x')) FROM jsonb_array_elements(data))", env: d(`[{}, {"x": "s"}]`), want: false}, // NULL, false
		{src: "(SELECT bool_and(value) FROM jsonb_array_elements(data))", env: d(`[true]`), err: "raised"},                        // jsonb is not boolean
		{src: "(SELECT bool_and(boom(value)) FROM jsonb_array_elements(data))", env: d(`[1]`), err: "raised"},
		{src: "(SELECT bool_and(boom(value)) FROM jsonb_array_elements(data))", env: d(`[]`), want: nil},
		// outer names stay visible in the aggregate argument
		{src: "(SELECT bool_and(value = data -> 0) FROM jsonb_array_elements(data))", env: d(`[3, 3.0]`), want: true},
		{src: "(SELECT bool_and(is_num(value)) FROM jsonb_array_elements(data)) AND jsonb_array_length(data) = 2", env: d(`[1, 2]`), want: true},
		// outside the sub-select the row names do not exist
		{src: "value", err: "undefined_column"},
		{src: "bool_and(TRUE)", err: "unsupported"},
		{src: "jsonb_each(data)", env: d(`{}`), err: "unsupported"},
	})
}

func TestSemInAndComparisons(t *testing.T) {
	runSem(t, &Script{}, []semCase{
		{src: "2 IN (1, 2, 3)", want: true},
		{src: "4 IN (1, 2, 3)", want: false},
		{src: "4 IN (1, NULL, 3)", want: nil},
		{src: "1 IN (1, NULL)", want: true},
		{src: "NULL IN (1, 2)", want: nil},
		{src: "x IN (1, 2)", env: map[string]Value{"x": nil}, want: nil},
		{src: "4 NOT IN (1, 2)", want: true},
		{src: "1 NOT IN (1, 2)", want: false},
		{src: "4 NOT IN (1, NULL)", want: nil},
		{src: "'a' IN ('a', 'b')", want: true},
		{src: "x IN ('a', 'b')", env: map[string]Value{"x": "c"}, want: false},
		{src: "-1 IN (-1)", want: true},
		{src: "2 IN (1, 2.0)", want: true},

		// text against a number or boolean: type error, raised when evaluated
		{src: "data#>>'{}' IN (1.5)", env: d(`1.5`), err: "raised"},
		{src: "data#>>'{}' IN (1, 2)", env: d(`1`), err: "raised"},
		{src: "data#>>'{}' IN (TRUE, FALSE)", env: d(`true`), err: "raised"},
		{src: "data#>>'{}' IN ('x', 1)", env: d(`"x"`), err: "raised"}, // every element is checked
		{src: "t = 1", env: map[string]Value{"t": "1"}, err: "raised"},
		{src: "1 = t", env: map[string]Value{"t": "1"}, err: "raised"},
		{src: "t = TRUE", env: map[string]Value{"t": "true"}, err: "raised"},
		{src: "'a' = 1", err: "raised"}, // invalid input syntax for type integer: "a"
		{src: "'1' = 1", want: true},    // an untyped constant takes the other operand's type
		{src: "'t' = TRUE", want: true},
		{src: "1 = TRUE", err: "raised"},
		{src: "data = 1", env: d(`1`), err: "raised"}, // jsonb is only comparable to jsonb
		{src: "data = t", env: map[string]Value{"data": j(`1`), "t": "1"}, err: "raised"},
		{src: "data = '1.0'", env: d(`1`), want: true}, // constant read as jsonb
		{src: `data = other`, env: map[string]Value{"data": j(`{"a":[1,2]}`), "other": j(`{"a":[1,2.0]}`)}, want: true},
		{src: `data <> other`, env: map[string]Value{"data": j(`{"a":1}`), "other": j(`{"b":1}`)}, want: true},
		{src: "data < other", env: map[string]Value{"data": j(`1`), "other": j(`2`)}, err: "unsupported"},

		// numeric comparisons, int against decimal
		{src: "1 = 1.0", want: true},
		{src: "1 < 1.5", want: true},
		{src: "2 <= 1.5", want: false},
		{src: "3 > 2", want: true},
		{src: "3 >= 3", want: true},
		{src: "3 != 3", want: false},
		{src: "3 <> 4", want: true},
		{src: "9007199254740993 = 9007199254740992.0", want: false}, // exact, not through float64
		{src: "NULL = NULL", want: nil},
		{src: "1 = NULL", want: nil},
		{src: "'a' = 'a'", want: true},
		{src: "'a' <> 'b'", want: true},
		{src: "'a' < 'b'", err: "unsupported"}, // collation dependent
		{src: "TRUE = FALSE", want: false},
		{src: "FALSE < TRUE", want: true},
		{src: "x = y", env: map[string]Value{"x": Array{int64(1)}, "y": Array{int64(1)}}, err: "unsupported"},
		{src: "-x = -3", env: map[string]Value{"x": int64(3)}, want: true},
		{src: "-t", env: map[string]Value{"t": "a"}, err: "raised"},
		{src: "'a' || 'b' = 'ab'", want: true},
		{src: "'a' || NULL", want: nil},
		{src: "'a' || 1", err: "unsupported"},
	})
}

func TestSemKleene(t *testing.T) {
	s, err := ParseScript(`CREATE FUNCTION boom () RETURNS boolean AS $$ BEGIN RAISE EXCEPTION 'boom'; END; $$ LANGUAGE plpgsql;`)
	if err != nil {
		t.Fatal(err)
	}
	runSem(t, s, []semCase{
		{src: "NOT TRUE", want: false},
		{src: "NOT FALSE", want: true},
		{src: "NOT NULL", want: nil},
		{src: "NOT NOT TRUE", want: true},
		{src: "TRUE AND TRUE", want: true},
		{src: "TRUE AND FALSE", want: false},
		{src: "TRUE AND NULL", want: nil},
		{src: "FALSE AND NULL", want: false},
		{src: "NULL AND FALSE", want: false},
		{src: "NULL AND TRUE", want: nil},
		{src: "NULL AND NULL", want: nil},
		{src: "TRUE OR FALSE", want: true},
		{src: "FALSE OR FALSE", want: false},
		{src: "FALSE OR NULL", want: nil},
		{src: "NULL OR TRUE", want: true},
		{src: "TRUE OR NULL", want: true},
		{src: "NULL OR NULL", want: nil},
		// precedence: NOT > AND > OR
		{src: "TRUE OR FALSE AND FALSE", want: true},
		{src: "NOT FALSE AND FALSE", want: false},
		{src: "NOT 1 = 2", want: true},
		// stated modelling assumption: left to right, short-circuit
		{src: "FALSE AND boom()", want: false},
		{src: "TRUE OR boom()", want: true},
		{src: "TRUE AND boom()", err: "raised"},
		{src: "NULL AND boom()", err: "raised"},
		{src: "boom() AND FALSE", err: "raised"},
		{src: "FALSE OR boom()", err: "raised"},
		// operands must be boolean
		{src: "1 AND TRUE", err: "raised"},
		{src: "TRUE OR 'x'", want: true},
		{src: "FALSE OR 'x'", err: "raised"},
		{src: "NOT 1", err: "raised"},
		{src: "NOT t", env: map[string]Value{"t": "true"}, err: "raised"},
		// IS NULL never yields NULL
		{src: "NULL IS NULL", want: true},
		{src: "1 IS NULL", want: false},
		{src: "1 IS NOT NULL", want: true},
		{src: "x IS NOT NULL", env: map[string]Value{"x": nil}, want: false},
		{src: "1 = 1 IS NULL", want: false}, // (1 = 1) IS NULL
		{src: "unknown_fn(1)", err: "undefined_function"},
		{src: "nope", err: "undefined_column"},
		{src: "X", env: map[string]Value{"x": int64(1)}, want: int64(1)}, // names fold to lower case
	})
	if _, err := s.Eval(&Ident{Name: "x"}, map[string]Value{"x": 1}); err == nil {
		t.Errorf("a Go int is not a Value, Eval must refuse it")
	}
	if _, err := s.Eval(&Ident{Name: "x"}, map[string]Value{"x": int64(1), "X": int64(2)}); err == nil {
		t.Errorf("colliding env names must be refused")
	}
	if _, err := s.Eval(&Ident{Name: "x"}, map[string]Value{"x": JSON{V: 1.5}}); err == nil {
		t.Errorf("a float64 inside JSON must be refused (UseNumber)")
	}
}

func TestSemArrayLength(t *testing.T) {
	runSem(t, &Script{}, []semCase{
		{src: "array_length(a, 1)", env: map[string]Value{"a": Array{int64(1), int64(2)}}, want: int64(2)},
		{src: "array_length(a, 1)", env: map[string]Value{"a": Array{}}, want: nil}, // PostgreSQL quirk
		{src: "array_length(a, 1)", env: map[string]Value{"a": nil}, want: nil},
		{src: "array_length(a, NULL)", env: map[string]Value{"a": Array{int64(1)}}, want: nil},
		{src: "array_length(a, 2)", env: map[string]Value{"a": Array{int64(1)}}, want: nil},
		{src: "array_length(a, 1)", env: map[string]Value{"a": Array{nil, nil}}, want: int64(2)},
		{src: "array_length(a, 1) = 3", env: map[string]Value{"a": Array{true, false, true}}, want: true},
		{src: "array_length(a, 1)", env: map[string]Value{"a": "text"}, err: "raised"},
		{src: "array_length(a, 1)", env: map[string]Value{"a": j(`[1]`)}, err: "raised"},
		{src: "array_length(a)", env: map[string]Value{"a": Array{}}, err: "undefined_function"},
		{src: "array_length(a, 1)", env: map[string]Value{"a": Array{Array{int64(1)}}}, err: "unsupported"},
	})
}

func TestSemCheckPasses(t *testing.T) {
	s := &Script{}
	for _, c := range []struct {
		src        string
		pass, null bool
		err        bool
	}{
		{"1 = 1", true, false, false},
		{"1 = 2", false, false, false},
		{"1 = NULL", true, true, false},
		{"1", false, false, true},
		{"'a' = 1", false, false, true},
	} {
		e, err := ParseExpr(c.src)
		if err != nil {
			t.Fatal(err)
		}
		pass, null, err := s.CheckPasses(e, nil)
		if pass != c.pass || null != c.null || (err != nil) != c.err {
			t.Errorf("CheckPasses(%s) = %v, %v, %v", c.src, pass, null, err)
		}
	}
}

// ---------------------------------------------------------------- PL/pgSQL

func fn(body string) string {
	return "CREATE OR REPLACE FUNCTION f (data jsonb) RETURNS boolean AS $$" + body + "$$ LANGUAGE 'plpgsql' IMMUTABLE;"
}

func TestSemPlpgsql(t *testing.T) {
	cases := []struct {
		name string
		src  string
		arg  Value
		want Value
		err  string
	}{
		{name: "IF taken", src: fn(`BEGIN IF jsonb_typeof(data) = 'null' THEN RETURN TRUE; END IF; RETURN FALSE; END;`), arg: j(`null`), want: true},
		{name: "IF not taken", src: fn(`BEGIN IF jsonb_typeof(data) = 'null' THEN RETURN TRUE; END IF; RETURN FALSE; END;`), arg: j(`1`), want: false},
		{name: "IF NULL is not taken", src: fn(`BEGIN IF jsonb_typeof(data) = 'null' THEN RETURN TRUE; END IF; RETURN FALSE; END;`), arg: nil, want: false},
		{name: "IF NOT NULL is not taken either", src: fn(`BEGIN IF NOT (jsonb_typeof(data) = 'null') THEN RETURN TRUE; END IF; RETURN FALSE; END;`), arg: nil, want: false},
		{name: "ELSIF / ELSE", src: fn(`BEGIN IF data = '1' THEN RETURN FALSE; ELSIF data = '2' THEN RETURN TRUE; ELSE RETURN NULL; END IF; END;`), arg: j(`2`), want: true},
		{name: "ELSE", src: fn(`BEGIN IF data = '1' THEN RETURN FALSE; ELSIF data = '2' THEN RETURN TRUE; ELSE RETURN NULL; END IF; END;`), arg: j(`3`), want: nil},
		{name: "IF condition must be boolean", src: fn(`BEGIN IF data THEN RETURN TRUE; END IF; RETURN FALSE; END;`), arg: j(`true`), err: "raised"},

		{name: "CASE first match", src: fn(`BEGIN CASE WHEN data->>'K' = 'a' THEN RETURN TRUE; WHEN data->>'K' = 'b' THEN RETURN FALSE; END CASE; END;`), arg: j(`{"K":"a"}`), want: true},
		{name: "CASE second match", src: fn(`BEGIN CASE WHEN data->>'K' = 'a' THEN RETURN TRUE; WHEN data->>'K' = 'b' THEN RETURN FALSE; END CASE; END;`), arg: j(`{"K":"b"}`), want: false},
		{name: "CASE not found", src: fn(`BEGIN CASE WHEN data->>'K' = 'a' THEN RETURN TRUE; END CASE; RETURN FALSE; END;`), arg: j(`{"K":"z"}`), err: "raised"},
		{name: "CASE WHEN NULL, not found", src: fn(`BEGIN CASE WHEN data->>'K' = 'a' THEN RETURN TRUE; END CASE; RETURN FALSE; END;`), arg: j(`{}`), err: "raised"},
		{name: "CASE ELSE", src: fn(`BEGIN CASE WHEN data->>'K' = 'a' THEN RETURN TRUE; ELSE RETURN FALSE; END CASE; END;`), arg: j(`{}`), want: false},
		{name: "CASE falls through to the next statement", src: fn(`BEGIN CASE WHEN TRUE THEN NULL; END CASE; RETURN TRUE; END;`), arg: nil, want: true},

		{name: "RAISE WARNING has no effect", src: fn(`BEGIN RAISE WARNING '% is odd', data; RAISE NOTICE 'x'; RAISE INFO 'y'; RAISE DEBUG 'z'; RAISE LOG '100%%'; RETURN TRUE; END;`), arg: j(`1`), want: true},
		{name: "RAISE EXCEPTION raises", src: fn(`BEGIN RAISE EXCEPTION '% is odd', data; RETURN TRUE; END;`), arg: j(`1`), err: "raised"},
		{name: "RAISE defaults to EXCEPTION", src: fn(`BEGIN RAISE 'bad'; RETURN TRUE; END;`), arg: j(`1`), err: "raised"},

		{name: "no RETURN", src: fn(`BEGIN IF data = '1' THEN RETURN TRUE; END IF; END;`), arg: j(`2`), err: "raised"},
		{name: "empty body", src: fn(`BEGIN END;`), arg: j(`2`), err: "raised"},

		{name: "DECLARE with initialiser", src: fn(`DECLARE ok boolean := jsonb_typeof(data) = 'string'; BEGIN RETURN ok; END;`), arg: j(`"s"`), want: true},
		{name: "DECLARE without initialiser is NULL", src: fn(`DECLARE ok boolean; BEGIN RETURN ok; END;`), arg: j(`"s"`), want: nil},
		{name: "initialisers see earlier variables", src: fn(`DECLARE a boolean := TRUE; b boolean := NOT a; BEGIN RETURN b; END;`), arg: nil, want: false},
		{name: "initialiser errors surface", src: fn(`DECLARE n integer := data::int; BEGIN RETURN TRUE; END;`), arg: j(`"s"`), err: "raised"},
		{name: "assignment", src: fn(`DECLARE ok boolean; BEGIN ok := data = '1'; ok := NOT ok; RETURN ok; END;`), arg: j(`1`), want: false},
		{name: "assignment to the parameter", src: fn(`BEGIN data := data -> 'a'; RETURN data = '1'; END;`), arg: j(`{"a":1}`), want: true},
		{name: "assignment of a mistyped value", src: fn(`DECLARE ok boolean; BEGIN ok := 1; RETURN ok; END;`), arg: nil, err: "unsupported"},
		{name: "mistyped result", src: fn(`BEGIN RETURN 1; END;`), arg: nil, err: "unsupported"},
		{name: "parameter bound by name, any case", src: fn(`BEGIN RETURN JSONB_TYPEOF(DATA) = 'number'; END;`), arg: j(`1`), want: true},
		{name: "row name clashing with a variable", src: fn(`DECLARE value boolean := TRUE; BEGIN RETURN (SELECT bool_and(value) FROM jsonb_array_elements(data)); END;`), arg: j(`[1]`), err: "raised"},
	}
	for _, c := range cases {
		s, err := ParseScript(c.src)
		if err != nil {
			t.Errorf("%s: parse: %v", c.name, err)
			continue
		}
		got, err := s.Call("F", c.arg)
		switch c.err {
		case "":
			if err != nil || !valuesEqual(got, c.want) {
				t.Errorf("%s: got (%#v, %v), want %#v", c.name, got, err, c.want)
			}
		case "raised":
			var re *RaisedError
			if !errors.As(err, &re) {
				t.Errorf("%s: got (%#v, %v), want a RaisedError", c.name, got, err)
			}
		case "unsupported":
			var ue *Unsupported
			if !errors.As(err, &ue) {
				t.Errorf("%s: got (%#v, %v), want Unsupported", c.name, got, err)
			}
		}
	}
}

func TestSemRaiseMessageAndErrors(t *testing.T) {
	s, err := ParseScript(fn(`BEGIN RAISE EXCEPTION '% is not a %, 100%%', data, 'number'; END;`))
	if err != nil {
		t.Fatal(err)
	}
	_, err = s.Call("f", j(`{"a": "x"}`))
	var re *RaisedError
	if !errors.As(err, &re) || re.Msg != `{"a": "x"} is not a number, 100%` {
		t.Errorf("RAISE message: %v", err)
	}
	if !strings.Contains(re.Error(), "ERROR") {
		t.Errorf("Error(): %s", re.Error())
	}

	_, err = s.Call("nope", nil)
	var uf *UndefinedFunction
	if !errors.As(err, &uf) || uf.Name != "nope" {
		t.Errorf("unknown function: %v", err)
	}
	_, err = s.Call("f")
	if !errors.As(err, &uf) {
		t.Errorf("wrong arity: %v", err)
	}
	_, err = s.Call("f", "text")
	if !errors.As(err, &re) {
		t.Errorf("text for a jsonb parameter: %v", err)
	}
	_, err = s.Call("f", 12)
	var ue *Unsupported
	if !errors.As(err, &ue) {
		t.Errorf("Go int argument: %v", err)
	}
}

func TestSemCallsBetweenFunctions(t *testing.T) {
	s, err := ParseScript(`
CREATE FUNCTION leaf (data jsonb) RETURNS boolean AS $$ BEGIN RETURN jsonb_typeof(data) = 'number'; END; $$ LANGUAGE plpgsql;
CREATE FUNCTION root (data jsonb) RETURNS boolean AS $$ BEGIN RETURN leaf(data -> 'x') AND LEAF('1'); END; $$ LANGUAGE plpgsql;
CREATE FUNCTION strict_one (data jsonb) RETURNS boolean AS $$ BEGIN RETURN TRUE; END; $$ LANGUAGE plpgsql STRICT;
CREATE FUNCTION two (a integer, b text) RETURNS text AS $$ BEGIN IF a = 1 THEN RETURN b; END IF; RETURN 'other'; END; $$ LANGUAGE plpgsql;
CREATE FUNCTION calls_missing (data jsonb) RETURNS boolean AS $$ BEGIN RETURN missing_fn(data); END; $$ LANGUAGE plpgsql;
ALTER TABLE t ADD CHECK (root(col) AND other_missing(col));
`)
	if err != nil {
		t.Fatal(err)
	}
	if v, err := s.Call("root", j(`{"x": 1}`)); err != nil || v != true {
		t.Errorf("root: %v %v", v, err)
	}
	if v, err := s.Call("root", j(`{"x": "1"}`)); err != nil || v != false {
		t.Errorf("root: %v %v", v, err)
	}
	if v, err := s.Call("strict_one", nil); err != nil || v != nil {
		t.Errorf("strict: %v %v", v, err)
	}
	if v, err := s.Call("strict_one", j(`1`)); err != nil || v != true {
		t.Errorf("strict: %v %v", v, err)
	}
	if v, err := s.Call("two", int64(1), "b"); err != nil || v != "b" {
		t.Errorf("two: %v %v", v, err)
	}
	runSem(t, s, []semCase{
		{src: "two(1, 'x')", want: "x"},
		{src: "two('1', 'x')", want: "x"}, // constant read as integer
		{src: "two(2, 'x')", want: "other"},
		{src: "two(1)", err: "undefined_function"},
		{src: "two('x', 'x')", err: "raised"},
		{src: "two(1, 2)", err: "raised"},
		{src: "two(1.5, 'x')", err: "raised"},
		{src: "two(99999999999, 'x')", err: "raised"},
		{src: "leaf('{')", err: "raised"},
	})
	var uf *UndefinedFunction
	if _, err := s.Call("calls_missing", j(`1`)); !errors.As(err, &uf) || uf.Name != "missing_fn" {
		t.Errorf("calls_missing: %v", err)
	}
	want := []string{"leaf", "missing_fn", "other_missing", "root"}
	if got := s.CalledFunctions(); strings.Join(got, ",") != strings.Join(want, ",") {
		t.Errorf("CalledFunctions = %v, want %v", got, want)
	}
}

func TestSemRecursionLimit(t *testing.T) {
	s, err := ParseScript(`
CREATE FUNCTION forever (data jsonb) RETURNS boolean AS $$ BEGIN RETURN forever(data); END; $$ LANGUAGE plpgsql;
CREATE FUNCTION twice (data jsonb) RETURNS boolean AS $$ BEGIN RETURN twice(data) AND twice(data); END; $$ LANGUAGE plpgsql;
CREATE FUNCTION walk (data jsonb) RETURNS boolean AS $$
BEGIN
	IF jsonb_typeof(data) != 'array' THEN RETURN TRUE; END IF;
	IF jsonb_array_length(data) = 0 THEN RETURN TRUE; END IF;
	RETURN (SELECT bool_and(walk(value)) FROM jsonb_array_elements(data));
END; $$ LANGUAGE plpgsql;`)
	if err != nil {
		t.Fatal(err)
	}
	for _, f := range []string{"forever", "twice"} {
		_, err = s.Call(f, j(`1`))
		var re *RaisedError
		if !errors.As(err, &re) || !strings.Contains(re.Msg, "stack depth") {
			t.Errorf("%s: %v", f, err)
		}
	}
	// data-driven recursion below the limit works, however deep the document
	deep := strings.Repeat("[", 3000) + "1" + strings.Repeat("]", 3000)
	if v, err := s.Call("walk", j(deep)); err != nil || v != true {
		t.Errorf("walk: %v %v", v, err)
	}
}

func TestJSONTextRendering(t *testing.T) {
	for in, want := range map[string]string{
		`1`: "1", `-0`: "0", `0.0`: "0.0", `-0.0`: "0.0", `1.50`: "1.50", `1e2`: "100", `1.0e1`: "10",
		`1E-2`: "0.01", `1.5e-1`: "0.15", `12.345e1`: "123.45", `12.345e5`: "1234500", `-1.5E+3`: "-1500",
		`0.001`: "0.001", `100`: "100", `1e0`: "1", `0e5`: "0", `0.00e1`: "0.0",
		`"a\"b\\c\n\u0001é"`:                   `"a\"b\\c\n\u0001é"`,
		`"<>&"`:                                `"<>&"`,
		`{"bb":1,"a":[1,{"c":null}],"B":true}`: `{"B": true, "a": [1, {"c": null}], "bb": 1}`,
		`[]`:                                   "[]", `{}`: "{}",
	} {
		got, err := jsonText(j(in).V)
		if err != nil || got != want {
			t.Errorf("jsonText(%s) = %q, %v; want %q", in, got, err, want)
		}
	}
	if _, err := jsonText(j(`1e999999`).V); err == nil {
		t.Errorf("huge exponent must be refused")
	}
	if _, err := ParseJSON(`1 2`); err == nil {
		t.Errorf("trailing data must be refused")
	}
	if _, err := ParseJSON(``); err == nil {
		t.Errorf("empty text must be refused")
	}
}

func TestDecimalHelpers(t *testing.T) {
	round := map[string]int64{
		"0": 0, "0.4": 0, "0.5": 1, "-0.5": -1, "1.5": 2, "2.5": 3, "-2.5": -3, "2.49": 2, "1e2": 100,
		"0.05": 0, "0.049e1": 0, "0.05e1": 1, "123.456": 123, "999.5": 1000, "9223372036854775807": 9223372036854775807,
		"-9223372036854775808": -9223372036854775808, "00012": 12,
	}
	for in, want := range round {
		dd, ok := parseDecimal(in)
		if !ok {
			t.Errorf("parseDecimal(%s) failed", in)
			continue
		}
		got, ok := dd.roundToInt()
		if !ok || got != want {
			t.Errorf("round(%s) = %d, %v; want %d", in, got, ok, want)
		}
	}
	for _, in := range []string{"9223372036854775808", "1e19", "1e400", "-9223372036854775809"} {
		dd, _ := parseDecimal(in)
		if _, ok := dd.roundToInt(); ok {
			t.Errorf("round(%s) must overflow", in)
		}
	}
	for _, in := range []string{"", "-", ".", "e5", "1e", "1e+", "1x", "--1", "1.2.3"} {
		if _, ok := parseDecimal(in); ok {
			t.Errorf("parseDecimal(%q) must fail", in)
		}
	}
	cmp := []struct {
		a, b string
		want int
	}{
		{"1", "1.0", 0}, {"1", "1.00e0", 0}, {"10", "1e1", 0}, {"0", "-0.0", 0}, {"1", "2", -1}, {"-1", "-2", 1},
		{"0.1", "0.09", 1}, {"15", "150", -1}, {"-1", "1", -1}, {"1e-3", "0.001", 0}, {"0.15", "0.151", -1},
	}
	for _, c := range cmp {
		a, _ := parseDecimal(c.a)
		b, _ := parseDecimal(c.b)
		if got := cmpDecimal(a, b); got != c.want {
			t.Errorf("cmp(%s, %s) = %d, want %d", c.a, c.b, got, c.want)
		}
	}
}
