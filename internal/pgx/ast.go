package pgx

import (
	"strconv"
	"strings"
)

// Expr is a parsed SQL expression. String() renders it fully parenthesised,
// in a form that ParseExpr reads back to the same tree.
type Expr interface {
	String() string
	exprNode()
}

// Lit is a literal: Val is nil (NULL), bool, int64, float64 or string.
type Lit struct {
	Val Value
	Raw string // numbers: the source text (with a leading '-' when a sign was folded in)
}

// Ident is a column, parameter or variable reference, as written.
type Ident struct{ Name string }

// Call is a function call f(args...). Func is as written.
type Call struct {
	Func string
	Args []Expr
}

// BinOp is a binary operation. Op is one of
// "=", "!=", "<>", "<", ">", "<=", ">=", "->", "->>", "#>>", "||", "AND", "OR".
type BinOp struct {
	Op   string
	L, R Expr
}

// Not is NOT X.
type Not struct{ X Expr }

// Neg is unary minus applied to something other than a number literal.
type Neg struct{ X Expr }

// In is X [NOT] IN (List...).
type In struct {
	X    Expr
	List []Expr
	Not  bool
}

// IsNull is X IS [NOT] NULL.
type IsNull struct {
	X   Expr
	Not bool
}

// Cast is X::Type, Type normalised as Column.Type.
type Cast struct {
	X    Expr
	Type string
}

// SubSelect is the scalar aggregate sub-select
// (SELECT Agg(Arg) FROM From(FromArg)); Agg and From are lower-cased.
type SubSelect struct {
	Agg     string // "bool_and"
	Arg     Expr
	From    string // "jsonb_each" | "jsonb_array_elements"
	FromArg Expr
}

func (*Lit) exprNode()       {}
func (*Ident) exprNode()     {}
func (*Call) exprNode()      {}
func (*BinOp) exprNode()     {}
func (*Not) exprNode()       {}
func (*Neg) exprNode()       {}
func (*In) exprNode()        {}
func (*IsNull) exprNode()    {}
func (*Cast) exprNode()      {}
func (*SubSelect) exprNode() {}

func quoteSQL(s string) string { return "'" + strings.ReplaceAll(s, "'", "''") + "'" }

func (e *Lit) String() string {
	switch v := e.Val.(type) {
	case nil:
		return "NULL"
	case bool:
		if v {
			return "TRUE"
		}
		return "FALSE"
	case string:
		return quoteSQL(v)
	case int64:
		if e.Raw != "" {
			return e.Raw
		}
		return strconv.FormatInt(v, 10)
	case float64:
		if e.Raw != "" {
			return e.Raw
		}
		return strconv.FormatFloat(v, 'f', -1, 64)
	}
	return "?"
}

func (e *Ident) String() string { return e.Name }

func exprList(l []Expr) string {
	parts := make([]string, len(l))
	for i, a := range l {
		parts[i] = a.String()
	}
	return strings.Join(parts, ", ")
}

func (e *Call) String() string { return e.Func + "(" + exprList(e.Args) + ")" }

func (e *BinOp) String() string {
	return "(" + e.L.String() + " " + e.Op + " " + e.R.String() + ")"
}

func (e *Not) String() string { return "(NOT " + e.X.String() + ")" }

func (e *Neg) String() string { return "(- " + e.X.String() + ")" }

func (e *In) String() string {
	op := " IN ("
	if e.Not {
		op = " NOT IN ("
	}
	return "(" + e.X.String() + op + exprList(e.List) + "))"
}

func (e *IsNull) String() string {
	if e.Not {
		return "(" + e.X.String() + " IS NOT NULL)"
	}
	return "(" + e.X.String() + " IS NULL)"
}

func (e *Cast) String() string {
	x := e.X.String()
	if l, ok := e.X.(*Lit); ok && strings.HasPrefix(l.String(), "-") {
		x = "(" + x + ")" // -1::int would read back as -(1::int)
	}
	return x + "::" + e.Type
}

func (e *SubSelect) String() string {
	return "(SELECT " + e.Agg + "(" + e.Arg.String() + ") FROM " + e.From + "(" + e.FromArg.String() + "))"
}

// ---------------------------------------------------------------- PL/pgSQL

// Body is a parsed PL/pgSQL function body.
type Body struct {
	Decls []*VarDecl
	Stmts []Stmt
}

// VarDecl is one DECLARE entry.
type VarDecl struct {
	Name string // as written
	Type string // normalised
	Init Expr   // nil when absent
}

// Stmt is a PL/pgSQL statement.
type Stmt interface{ stmtNode() }

// CondBlock is a condition with the statements it guards.
type CondBlock struct {
	Cond Expr
	Body []Stmt
}

// IfStmt is IF .. THEN .. {ELSIF .. THEN ..} [ELSE ..] END IF;
type IfStmt struct {
	Branches []CondBlock // IF, then every ELSIF
	Else     []Stmt
	HasElse  bool
}

// CaseStmt is the searched CASE {WHEN .. THEN ..} [ELSE ..] END CASE;
type CaseStmt struct {
	Whens   []CondBlock
	Else    []Stmt
	HasElse bool
}

// ReturnStmt is RETURN X;
type ReturnStmt struct{ X Expr }

// AssignStmt is Name := X;
type AssignStmt struct {
	Name string
	X    Expr
}

// RaiseStmt is RAISE [level] 'format' [, args];  Level is upper-cased
// ("EXCEPTION" when omitted).
type RaiseStmt struct {
	Level  string
	Format string
	Args   []Expr
}

// NullStmt is NULL;
type NullStmt struct{}

func (*IfStmt) stmtNode()     {}
func (*CaseStmt) stmtNode()   {}
func (*ReturnStmt) stmtNode() {}
func (*AssignStmt) stmtNode() {}
func (*RaiseStmt) stmtNode()  {}
func (*NullStmt) stmtNode()   {}

// walkExpr calls f on e and every sub-expression of e.
func walkExpr(e Expr, f func(Expr)) {
	if e == nil {
		return
	}
	f(e)
	switch e := e.(type) {
	case *Call:
		for _, a := range e.Args {
			walkExpr(a, f)
		}
	case *BinOp:
		walkExpr(e.L, f)
		walkExpr(e.R, f)
	case *Not:
		walkExpr(e.X, f)
	case *Neg:
		walkExpr(e.X, f)
	case *In:
		walkExpr(e.X, f)
		for _, a := range e.List {
			walkExpr(a, f)
		}
	case *IsNull:
		walkExpr(e.X, f)
	case *Cast:
		walkExpr(e.X, f)
	case *SubSelect:
		walkExpr(e.Arg, f)
		walkExpr(e.FromArg, f)
	}
}

// walkStmts calls f on every expression found in the statements.
func walkStmts(stmts []Stmt, f func(Expr)) {
	for _, st := range stmts {
		switch st := st.(type) {
		case *IfStmt:
			for _, b := range st.Branches {
				walkExpr(b.Cond, f)
				walkStmts(b.Body, f)
			}
			walkStmts(st.Else, f)
		case *CaseStmt:
			for _, b := range st.Whens {
				walkExpr(b.Cond, f)
				walkStmts(b.Body, f)
			}
			walkStmts(st.Else, f)
		case *ReturnStmt:
			walkExpr(st.X, f)
		case *AssignStmt:
			walkExpr(st.X, f)
		case *RaiseStmt:
			for _, a := range st.Args {
				walkExpr(a, f)
			}
		}
	}
}
