package pgx

import (
	"encoding/json"
	"testing"
)

func mustJSON(t testing.TB, text string) JSON {
	t.Helper()
	j, err := ParseJSON(text)
	if err != nil {
		t.Fatalf("bad test document %s: %v", text, err)
	}
	return j
}

// A valid testsource.ComplexStruct document, as Go's encoding/json writes it.
const validPage = `{
	"with_tag": {"a": 1, "b": 2},
	"Time": "2009-11-10T23:00:00Z",
	"B": "hello",
	"Value": {"Kind": "ConcretType1", "Data": {"List2": [1, 2, 3], "V": 4}},
	"L": [
		{"Kind": "ConcretType2", "Data": {"D": 1.5}},
		{"Kind": "ConcretType1", "Data": {"List2": null, "V": 0}}
	],
	"A": 12,
	"E": 4,
	"E2": 3,
	"Date": "2020-01-02",
	"F": [
		[true, false, true, false, true],
		[true, false, true, false, true],
		[true, false, true, false, true],
		[true, false, true, false, true],
		[false, false, false, false, false]
	],
	"Imported": {"A": 5},
	"EnumMap": {"0": true, "1": false},
	"OptID1": {"Id": 1},
	"OptID2": {"Id": 2}
}`

func pageCheck(t *testing.T) (*Script, Expr) {
	_, s := realOutput(t)
	for _, c := range s.Constraints {
		if c.Kind == "check" && c.Name == "Page_gomacro" {
			return s, c.Check
		}
	}
	t.Fatal("Page_gomacro CHECK not found")
	return nil, nil
}

func TestValidatorsAcceptValidDocuments(t *testing.T) {
	s, check := pageCheck(t)

	passes, isNull, err := s.CheckPasses(check, map[string]Value{"Page": mustJSON(t, validPage)})
	if err != nil || !passes || isNull {
		t.Fatalf("valid page: passes=%v isNull=%v err=%v", passes, isNull, err)
	}

	// null accepted for slices and maps, empty containers as well
	accept := map[string][]string{
		"gomacro_validate_json_array_number":       {`null`, `[]`, `[1, 2.5, -3e2]`},
		"gomacro_validate_json_array_test_ItfType": {`null`, `[]`, `[{"Kind":"ConcretType2","Data":{"D":1}}]`},
		"gomacro_validate_json_map_boolean":        {`null`, `{"a": true, "b": false}`},
		"gomacro_validate_json_map_number":         {`null`, `{"x": 0}`},
		"gomacro_validate_json_test_EnumInt":       {`0`, `1`, `2`, `4`, `4.0`},
		"gomacro_validate_json_test_EnumUInt":      {`0`, `3`},
		"gomacro_validate_json_string":             {`""`, `"x"`},
		"gomacro_validate_json_boolean":            {`true`, `false`},
		"gomacro_validate_json_number":             {`0`, `-1.5e10`},
		"gomacro_validate_json_test_ConcretType1":  {`{"List2": null, "V": 1}`, `{"List2": [], "V": 1}`},
		"gomacro_validate_json_test_ItfType":       {`{"Kind":"ConcretType1","Data":{"List2":[1],"V":2}}`},
		"gomacro_validate_json_array_5_boolean":    {`[true,true,true,true,false]`},
	}
	for fn, docs := range accept {
		for _, doc := range docs {
			v, err := s.Call(fn, mustJSON(t, doc))
			if err != nil || v != true {
				t.Errorf("%s(%s) = %v, %v; want true", fn, doc, v, err)
			}
		}
	}
	// the CHECK on the map column
	var paramsCheck Expr
	for _, c := range s.Constraints {
		if c.Name == "Parameters_gomacro" {
			paramsCheck = c.Check
		}
	}
	for _, doc := range []string{`null`, `{}`, `{"k": true}`} {
		passes, _, err := s.CheckPasses(paramsCheck, map[string]Value{"parameters": mustJSON(t, doc)})
		if err != nil || !passes {
			t.Errorf("Parameters CHECK on %s: %v %v", doc, passes, err)
		}
	}
	// the empty map: bool_and over no rows is NULL, the CHECK passes on NULL
	passes, isNull, err = s.CheckPasses(paramsCheck, map[string]Value{"parameters": mustJSON(t, `{}`)})
	if err != nil || !passes || !isNull {
		t.Errorf("empty map: passes=%v isNull=%v err=%v", passes, isNull, err)
	}
	// SQL NULL input: the simple validators yield NULL ...
	passes, isNull, err = s.CheckPasses(paramsCheck, map[string]Value{"parameters": nil})
	if err != nil || !passes || !isNull {
		t.Errorf("NULL parameters: passes=%v isNull=%v err=%v", passes, isNull, err)
	}
	// ... but the union validator falls into ELSE RETURN FALSE on NULL, so a
	// struct with a union field yields false (fact about the generated code).
	passes, isNull, err = s.CheckPasses(check, map[string]Value{"page": nil})
	if err != nil || passes || isNull {
		t.Errorf("NULL page: passes=%v isNull=%v err=%v", passes, isNull, err)
	}
}

func TestValidatorsRejectForeignShapes(t *testing.T) {
	s, check := pageCheck(t)

	type obj = map[string]interface{}
	type arr = []interface{}
	edits := []struct {
		what string
		edit func(root obj)
	}{
		{"extra key at root", func(r obj) { r["Extra"] = true }},
		{"extra key in nested struct", func(r obj) { r["Imported"].(obj)["Z"] = nil }},
		{"extra key in union member", func(r obj) { r["L"].(arr)[0].(obj)["Data"].(obj)["E"] = "x" }},
		{"extra key in union wrapper", func(r obj) { r["Value"].(obj)["Extra"] = "x" }}, // see below: NOT rejected
		{"wrong kind: string for number", func(r obj) { r["A"] = "12" }},
		{"wrong kind: number for string", func(r obj) { r["B"] = json.Number("1") }},
		{"wrong kind: object for array", func(r obj) { r["L"] = obj{"x": true} }},
		{"wrong kind: string for array", func(r obj) { r["L"] = "abc" }},
		{"wrong kind: array for map", func(r obj) { r["with_tag"] = arr{json.Number("1")} }},
		{"wrong kind: scalar for map", func(r obj) { r["EnumMap"] = true }},
		{"wrong kind: map value", func(r obj) { r["EnumMap"].(obj)["1"] = "no" }},
		{"wrong kind: null for struct", func(r obj) { r["OptID2"] = nil }},
		{"wrong kind: null for string", func(r obj) { r["Time"] = nil }},
		{"wrong kind: nested array element", func(r obj) { r["F"].(arr)[4].(arr)[2] = json.Number("0") }},
		{"wrong kind: deep in union member", func(r obj) { r["Value"].(obj)["Data"].(obj)["List2"].(arr)[1] = "2" }},
		{"unknown union Kind", func(r obj) { r["L"].(arr)[0].(obj)["Kind"] = "ConcretType3" }},
		{"union Kind not a string", func(r obj) { r["L"].(arr)[0].(obj)["Kind"] = json.Number("2") }},
		{"union with null Data", func(r obj) { r["Value"].(obj)["Data"] = nil }},
		{"union member of the other kind", func(r obj) { r["Value"].(obj)["Kind"] = "ConcretType2" }},
		{"enum non member", func(r obj) { r["E"] = json.Number("3") }},
		{"enum non member (uint)", func(r obj) { r["E2"] = json.Number("5") }},
		{"enum wrong kind", func(r obj) { r["E"] = "4" }},
		{"fixed array too short (outer)", func(r obj) { r["F"] = r["F"].(arr)[:4] }},
		{"fixed array too long (outer)", func(r obj) { r["F"] = append(r["F"].(arr), r["F"].(arr)[0]) }},
		{"fixed array too long (inner)", func(r obj) { f := r["F"].(arr); f[4] = append(f[4].(arr), true) }},
		{"fixed array too short (inner)", func(r obj) { f := r["F"].(arr); f[0] = f[0].(arr)[:4] }},
		{"fixed array empty", func(r obj) { r["F"] = arr{} }},
	}
	for _, e := range edits {
		doc := mustJSON(t, validPage)
		e.edit(doc.V.(obj))
		passes, isNull, err := s.CheckPasses(check, map[string]Value{"page": doc})
		if err != nil {
			t.Errorf("%s: error %v", e.what, err)
			continue
		}
		if e.what == "extra key in union wrapper" {
			// Fact about the generated code: the union validator looks at Kind
			// and Data only, further keys of the wrapper object are accepted.
			if !passes {
				t.Errorf("%s: rejected, the model changed", e.what)
			}
			continue
		}
		if passes || isNull {
			t.Errorf("%s: passes=%v isNull=%v, want a plain false", e.what, passes, isNull)
		}
	}

	reject := map[string][]string{
		"gomacro_validate_json_array_5_boolean":   {`[true]`, `[true,true,true,true,true,true]`, `null`, `{}`, `"x"`},
		"gomacro_validate_json_array_number":      {`{}`, `"x"`, `[1, "2"]`, `[null]`},
		"gomacro_validate_json_map_boolean":       {`[]`, `1`, `{"a": 1}`},
		"gomacro_validate_json_test_EnumInt":      {`3`, `-1`, `"1"`, `null`, `true`},
		"gomacro_validate_json_test_ItfType":      {`null`, `[]`, `{"Kind":"X","Data":{}}`, `{"Kind":"ConcretType2","Data":null}`, `{"Data":{"D":1}}`},
		"gomacro_validate_json_test_ConcretType2": {`{"D": 1, "X": 2}`, `{"D": "1"}`, `[]`, `null`},
		"gomacro_validate_json_string":            {`1`, `null`, `[]`},
	}
	for fn, docs := range reject {
		for _, doc := range docs {
			v, err := s.Call(fn, mustJSON(t, doc))
			if err != nil || v != false {
				t.Errorf("%s(%s) = %v, %v; want false", fn, doc, v, err)
			}
		}
	}

	// Missing keys are NOT rejected by the generated code: data->'D' is SQL
	// NULL, the member validator yields NULL (recorded here as a fact).
	v, err := s.Call("gomacro_validate_json_test_ConcretType2", mustJSON(t, `{}`))
	if err != nil || v != nil {
		t.Errorf("ConcretType2({}) = %v, %v; want NULL", v, err)
	}
	// An enum value beyond int32 makes data::int raise.
	_, err = s.Call("gomacro_validate_json_test_EnumInt", mustJSON(t, `1e30`))
	if _, ok := err.(*RaisedError); !ok {
		t.Errorf("EnumInt(1e30): err = %v, want a RaisedError", err)
	}
}

func TestColumnChecksOfTheRealScript(t *testing.T) {
	_, s := realOutput(t)
	tb := s.Table("table1s")
	cases := []struct {
		col  string
		val  Value
		pass bool
		null bool
	}{
		{"F", Array{int64(1), int64(2), int64(3), int64(4), int64(5)}, true, false},
		{"F", Array{int64(1)}, false, false},
		{"F", Array{}, true, true}, // array_length of an empty array is NULL: the CHECK passes
		{"BoolArray", Array{true, false, true}, true, false},
		{"BoolArray", Array{true, false, true, true}, false, false},
		{"guard", int64(1), true, false},
		{"guard", int64(3), false, false},
		{"guard", nil, true, true},
	}
	for _, c := range cases {
		col := tb.Column(c.col)
		pass, null, err := s.CheckPasses(col.Check, map[string]Value{c.col: c.val})
		if err != nil || pass != c.pass || null != c.null {
			t.Errorf("%s CHECK on %v: pass=%v null=%v err=%v", c.col, c.val, pass, null, err)
		}
	}
	// guard constraint: SET DEFAULT 0 and CHECK (guard = 0)
	for _, c := range s.Constraints {
		if c.Table == "table1s" && c.Kind == "set_default" {
			v, err := s.Eval(c.Default, nil)
			if err != nil || v != int64(0) {
				t.Errorf("default: %v %v", v, err)
			}
		}
		if c.Table == "repass" && c.Kind == "check" {
			for val, want := range map[int64]bool{0: true, 1: true, 2: false} {
				pass, _, err := s.CheckPasses(c.Check, map[string]Value{"V": val})
				if err != nil || pass != want {
					t.Errorf("repass CHECK V=%d: %v %v", val, pass, err)
				}
			}
		}
	}
}
