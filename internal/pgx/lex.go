package pgx

import (
	"fmt"
	"strings"
)

type tokKind int

const (
	tEOF     tokKind = iota
	tIdent           // unquoted identifier or keyword
	tQIdent          // "quoted identifier" (valid SQL, not modelled)
	tNumber          // 12, 1.5, .5, 1e3
	tString          // '...' with '' escapes; val holds the unescaped content
	tXString         // E'..', B'..', X'..', N'..', U&'..' (valid SQL, not modelled)
	tBody            // $tag$ ... $tag$; val holds the inner text, inner its offset
	tParam           // $1
	tOp              // operators and punctuation
)

type token struct {
	kind     tokKind
	text     string // source text
	up       string // upper-cased text, for tIdent only
	val      string // tString: unescaped content; tBody: inner text
	pos, end int    // byte offsets in the source
	inner    int    // tBody: offset of the inner text
	nlBefore bool   // a line break separates this token from the previous one
}

type comment struct {
	text string
	pos  int
	line bool // "-- ..." (as opposed to /* ... */)
}

// posError helpers: positions are byte offsets into src.

func lineCol(src string, pos int) (int, int) {
	if pos > len(src) {
		pos = len(src)
	}
	if pos < 0 {
		pos = 0
	}
	line := 1 + strings.Count(src[:pos], "\n")
	col := pos - strings.LastIndexByte(src[:pos], '\n')
	return line, col
}

func syntaxAt(src string, pos int, format string, args ...interface{}) error {
	l, c := lineCol(src, pos)
	return &SyntaxError{Line: l, Col: c, Msg: fmt.Sprintf(format, args...)}
}

func unsupportedAt(src string, pos int, format string, args ...interface{}) error {
	l, c := lineCol(src, pos)
	return &Unsupported{Line: l, Col: c, Msg: fmt.Sprintf(format, args...)}
}

func isIdentStart(c byte) bool {
	return c == '_' || (c >= 'a' && c <= 'z') || (c >= 'A' && c <= 'Z') || c >= 0x80
}

func isDigit(c byte) bool { return c >= '0' && c <= '9' }

func isIdentPart(c byte) bool { return isIdentStart(c) || isDigit(c) || c == '$' }

func isSpace(c byte) bool {
	return c == ' ' || c == '\t' || c == '\n' || c == '\r' || c == '\f' || c == '\v'
}

// opChars are the characters PostgreSQL allows in operator names.
const opChars = "+-*/<>=~!@#%^&|`?"

func isOpChar(c byte) bool { return strings.IndexByte(opChars, c) >= 0 }

// lexRange tokenises src[from:to]. Token positions are offsets into src, so
// that a $$ body can be lexed in place and errors keep script-relative lines.
func lexRange(src string, from, to int) ([]token, []comment, error) {
	var (
		toks     []token
		comments []comment
		pos      = from
		nl       bool
	)
	emit := func(t token) {
		t.nlBefore = nl
		nl = false
		toks = append(toks, t)
	}
	for pos < to {
		c := src[pos]
		switch {
		case isSpace(c):
			if c == '\n' {
				nl = true
			}
			pos++

		case c == '-' && pos+1 < to && src[pos+1] == '-':
			end := pos
			for end < to && src[end] != '\n' {
				end++
			}
			comments = append(comments, comment{text: strings.TrimSpace(src[pos:end]), pos: pos, line: true})
			pos = end

		case c == '/' && pos+1 < to && src[pos+1] == '*':
			// block comments nest in PostgreSQL
			depth, i := 1, pos+2
			for i < to && depth > 0 {
				switch {
				case src[i] == '/' && i+1 < to && src[i+1] == '*':
					depth++
					i += 2
				case src[i] == '*' && i+1 < to && src[i+1] == '/':
					depth--
					i += 2
				default:
					if src[i] == '\n' {
						nl = true
					}
					i++
				}
			}
			if depth > 0 {
				return nil, nil, syntaxAt(src, pos, "unterminated /* comment")
			}
			comments = append(comments, comment{text: src[pos:i], pos: pos})
			pos = i

		case c == '\'':
			val, end, ok := scanString(src, pos, to, false)
			if !ok {
				return nil, nil, syntaxAt(src, pos, "unterminated quoted string")
			}
			emit(token{kind: tString, text: src[pos:end], val: val, pos: pos, end: end})
			pos = end

		case c == '"':
			end := pos + 1
			closed := false
			for end < to {
				if src[end] == '"' {
					if end+1 < to && src[end+1] == '"' {
						end += 2
						continue
					}
					closed = true
					end++
					break
				}
				end++
			}
			if !closed {
				return nil, nil, syntaxAt(src, pos, "unterminated quoted identifier")
			}
			if end-pos == 2 {
				return nil, nil, syntaxAt(src, pos, "zero-length delimited identifier")
			}
			emit(token{kind: tQIdent, text: src[pos:end], pos: pos, end: end})
			pos = end

		case c == '$':
			if pos+1 < to && isDigit(src[pos+1]) {
				end := pos + 1
				for end < to && isDigit(src[end]) {
					end++
				}
				emit(token{kind: tParam, text: src[pos:end], pos: pos, end: end})
				pos = end
				break
			}
			// dollar quoting: $tag$ ... $tag$ (tag possibly empty)
			tagEnd := pos + 1
			if tagEnd < to && isIdentStart(src[tagEnd]) {
				for tagEnd < to && isIdentPart(src[tagEnd]) && src[tagEnd] != '$' {
					tagEnd++
				}
			}
			if tagEnd >= to || src[tagEnd] != '$' {
				return nil, nil, syntaxAt(src, pos, "unexpected character '$'")
			}
			delim := src[pos : tagEnd+1]
			inner := tagEnd + 1
			idx := strings.Index(src[inner:to], delim)
			if idx < 0 {
				return nil, nil, syntaxAt(src, pos, "unterminated dollar-quoted string %s", delim)
			}
			end := inner + idx + len(delim)
			emit(token{kind: tBody, text: src[pos:end], val: src[inner : inner+idx], pos: pos, end: end, inner: inner})
			pos = end

		case isDigit(c) || (c == '.' && pos+1 < to && isDigit(src[pos+1])):
			end := scanNumber(src, pos, to)
			emit(token{kind: tNumber, text: src[pos:end], pos: pos, end: end})
			pos = end

		case isIdentStart(c):
			end := pos + 1
			for end < to && isIdentPart(src[end]) {
				end++
			}
			word := src[pos:end]
			// prefixed string constants: E'..' B'..' X'..' N'..' U&'..'
			if end < to && src[end] == '\'' && len(word) == 1 && strings.ContainsAny(word, "eEbBxXnN") {
				_, send, ok := scanString(src, end, to, word == "e" || word == "E")
				if !ok {
					return nil, nil, syntaxAt(src, pos, "unterminated quoted string")
				}
				emit(token{kind: tXString, text: src[pos:send], pos: pos, end: send})
				pos = send
				break
			}
			if (word == "u" || word == "U") && end+1 < to && src[end] == '&' && src[end+1] == '\'' {
				_, send, ok := scanString(src, end+1, to, false)
				if !ok {
					return nil, nil, syntaxAt(src, pos, "unterminated quoted string")
				}
				emit(token{kind: tXString, text: src[pos:send], pos: pos, end: send})
				pos = send
				break
			}
			emit(token{kind: tIdent, text: word, up: strings.ToUpper(word), pos: pos, end: end})
			pos = end

		case c == '(' || c == ')' || c == ',' || c == ';' || c == '[' || c == ']' || c == '.':
			emit(token{kind: tOp, text: src[pos : pos+1], pos: pos, end: pos + 1})
			pos++

		case c == ':':
			end := pos + 1
			if end < to && (src[end] == ':' || src[end] == '=') {
				end++
			}
			emit(token{kind: tOp, text: src[pos:end], pos: pos, end: end})
			pos = end

		case isOpChar(c):
			end := pos
			for end < to && isOpChar(src[end]) {
				// a comment start ends the operator
				if end > pos && end+1 < to && ((src[end] == '-' && src[end+1] == '-') || (src[end] == '/' && src[end+1] == '*')) {
					break
				}
				end++
			}
			// A multi-character operator cannot end in + or - unless it also
			// contains one of ~ ! @ # % ^ & | ` ? (PostgreSQL lexical rule), so
			// that "=-1" reads as "=" "-" "1".
			for end-pos > 1 && (src[end-1] == '+' || src[end-1] == '-') && !strings.ContainsAny(src[pos:end], "~!@#%^&|`?") {
				end--
			}
			emit(token{kind: tOp, text: src[pos:end], pos: pos, end: end})
			pos = end

		default:
			return nil, nil, syntaxAt(src, pos, "unexpected character %q", rune(c))
		}
	}
	return toks, comments, nil
}

// scanString scans a quoted string starting at src[pos] == '\”. With
// backslash set (E'..' strings) a backslash escapes the next character.
func scanString(src string, pos, to int, backslash bool) (val string, end int, ok bool) {
	var b strings.Builder
	i := pos + 1
	for i < to {
		c := src[i]
		switch {
		case c == '\'':
			if i+1 < to && src[i+1] == '\'' {
				b.WriteByte('\'')
				i += 2
				continue
			}
			return b.String(), i + 1, true
		case c == '\\' && backslash && i+1 < to:
			b.WriteByte(src[i+1])
			i += 2
		default:
			b.WriteByte(c)
			i++
		}
	}
	return "", to, false
}

// scanNumber scans digits [. digits] [e [+-] digits] (or . digits ...).
func scanNumber(src string, pos, to int) int {
	end := pos
	for end < to && isDigit(src[end]) {
		end++
	}
	if end < to && src[end] == '.' {
		// "1..2" is 1 followed by ".."; keep it simple: a dot followed by a
		// second dot is not part of the number.
		if !(end+1 < to && src[end+1] == '.') {
			end++
			for end < to && isDigit(src[end]) {
				end++
			}
		}
	}
	if end < to && (src[end] == 'e' || src[end] == 'E') {
		e := end + 1
		if e < to && (src[e] == '+' || src[e] == '-') {
			e++
		}
		if e < to && isDigit(src[e]) {
			for e < to && isDigit(src[e]) {
				e++
			}
			end = e
		}
	}
	return end
}

// checkBalance verifies that parentheses and brackets nest properly.
func checkBalance(src string, toks []token) error {
	var stack []token
	for _, t := range toks {
		if t.kind != tOp {
			continue
		}
		switch t.text {
		case "(", "[":
			stack = append(stack, t)
		case ")", "]":
			want := "("
			if t.text == "]" {
				want = "["
			}
			if len(stack) == 0 {
				return syntaxAt(src, t.pos, "unmatched %q", t.text)
			}
			top := stack[len(stack)-1]
			if top.text != want {
				return syntaxAt(src, t.pos, "%q closes %q", t.text, top.text)
			}
			stack = stack[:len(stack)-1]
		}
	}
	if len(stack) > 0 {
		top := stack[len(stack)-1]
		return syntaxAt(src, top.pos, "unclosed %q", top.text)
	}
	return nil
}
