package pgx

import (
	"errors"
	"math/rand"
	"os"
	"reflect"
	"strconv"
	"strings"
	"testing"
)

func classify(err error) string {
	var se *SyntaxError
	var ue *Unsupported
	switch {
	case err == nil:
		return "ok"
	case errors.As(err, &se):
		return "syntax"
	case errors.As(err, &ue):
		return "unsupported"
	}
	return "other: " + err.Error()
}

func TestExprSyntaxVersusUnsupported(t *testing.T) {
	cases := map[string]string{
		// cannot be PostgreSQL
		"":                           "syntax",
		"a = ":                       "syntax",
		"a AND":                      "syntax",
		"AND a":                      "syntax",
		"a = = b":                    "syntax",
		"(a = 1":                     "syntax",
		"a = 1)":                     "syntax",
		"a IN ()":                    "syntax",
		"a IN (1, )":                 "syntax",
		"a IN (, 1)":                 "syntax",
		"a IN (1,, 2)":               "syntax",
		"a IN 1":                     "syntax",
		"a IN (1 2)":                 "syntax",
		"a NOT 1":                    "unsupported", // conservative: NOT may start NOT LIKE ...
		"key IN ('it's')":            "syntax",
		"key IN ('it's', 'b')":       "syntax",
		"key IN ('a' 'b')":           "syntax",
		"x = 'abc":                   "syntax",
		"x = 1 /* open":              "syntax",
		"f(1,)":                      "syntax",
		"f(":                         "syntax",
		"()":                         "syntax",
		"a ->":                       "syntax",
		"-> a":                       "syntax",
		"a IS":                       "syntax",
		"a IS NOT":                   "syntax",
		"a IS 5":                     "syntax",
		"a b":                        "syntax",
		"a 1":                        "syntax",
		"1 a":                        "syntax",
		"a::":                        "syntax",
		"a::(int)":                   "syntax",
		"a::int[":                    "syntax",
		"a = 1;":                     "syntax",
		"a = 1, 2":                   "syntax",
		"a ]":                        "syntax",
		"a = {1}":                    "syntax",
		"a = $":                      "syntax",
		"a = $$ x":                   "syntax",
		"a = \"unterminated":         "syntax",
		"(SELECT bool_and(x FROM y)": "syntax",
		"a::varchar(x)":              "syntax",
		"a::timestamp with zone":     "syntax",

		// valid SQL outside the subset
		"a + 1 = 2":                            "unsupported",
		"a - 1":                                "unsupported",
		"a * 2 > 1":                            "unsupported",
		"a @> b":                               "unsupported",
		"a ? 'k'":                              "unsupported",
		"a LIKE 'x%'":                          "unsupported",
		"a NOT LIKE 'x%'":                      "unsupported",
		"a ILIKE 'x'":                          "unsupported",
		"a BETWEEN 1 AND 2":                    "ok",
		"a BETWEEN 1":                          "syntax",
		"a BETWEEN SYMMETRIC 2 AND 1":          "unsupported",
		"a IS TRUE":                            "unsupported",
		"a IS NOT FALSE":                       "unsupported",
		"a IS DISTINCT FROM b":                 "unsupported",
		"a ISNULL":                             "unsupported",
		"a = b = c":                            "unsupported",
		"a IN (1) IN (TRUE)":                   "unsupported",
		"a IS NULL = TRUE":                     "unsupported",
		"a IS NULL IN (TRUE)":                  "unsupported",
		"a = NOT b":                            "unsupported",
		"CASE WHEN a THEN 1 ELSE 2 END":        "unsupported",
		"EXISTS (SELECT 1)":                    "unsupported",
		"ARRAY[1, 2]":                          "unsupported",
		"a[1]":                                 "unsupported",
		"(a)[1]":                               "unsupported",
		"(a).b":                                "unsupported",
		"t.a = 1":                              "unsupported",
		"(a, b) = (1, 2)":                      "unsupported",
		"CAST(a AS int)":                       "unsupported",
		"date '2020-01-01'":                    "unsupported",
		"a = E'x\\'y'":                         "unsupported",
		"a = $1":                               "unsupported",
		"\"A\" = 1":                            "unsupported",
		"a = $$x$$":                            "unsupported",
		"+a":                                   "unsupported",
		"~a":                                   "unsupported",
		"a = ANY (b)":                          "unsupported",
		"a IN (SELECT 1)":                      "unsupported",
		"count(*)":                             "unsupported",
		"f(DISTINCT a)":                        "unsupported",
		"f(a ORDER BY b)":                      "unsupported",
		"row_number() OVER (PARTITION BY a)":   "unsupported",
		"sum(a) OVER ()":                       "unsupported",
		"count(a) FILTER (WHERE a > 1)":        "unsupported",
		"(SELECT 1)":                           "unsupported",
		"(SELECT a FROM t)":                    "unsupported",
		"(SELECT count(x) FROM jsonb_each(d))": "unsupported",
		"(SELECT bool_and(x) FROM t)":          "unsupported",
		"(SELECT bool_and(x) FROM generate_series(1))":              "unsupported",
		"(SELECT bool_and(x) FROM jsonb_each(d) WHERE key = 'a')":   "unsupported",
		"(SELECT bool_and(x), 1 FROM jsonb_each(d))":                "unsupported",
		"(SELECT bool_and(x))":                                      "unsupported",
		"(VALUES (1))":                                              "unsupported",
		"a::schema.typ":                                             "unsupported",
		"'a'\n'b'":                                                  "unsupported", // continuation across lines
		"a COLLATE \"C\" = 'x'":                                     "unsupported",
		strings.Repeat("(", 2000) + "1" + strings.Repeat(")", 2000): "unsupported", // nesting bound
		strings.Repeat("NOT ", 2000) + "TRUE":                       "unsupported",
		strings.Repeat("-", 1) + "a":                                "ok",

		// in the subset
		"a = 1":                   "ok",
		"a=-1":                    "ok",
		"V = 0 /* LocalEnum.A */": "ok",
		"V = 0 /* nested /* comment */ */ OR V = 1 -- trailing": "ok",
		"Flow IN (0, 1, 2, 4)":                    "ok",
		"x NOT IN ('a', 'it''s')":                 "ok",
		"array_length(F, 1) = 5":                  "ok",
		"data#>>'{}' IN ('a')":                    "ok",
		"data::int IN (1)":                        "ok",
		"data -> 'a' ->> 'b' IS NOT NULL":         "ok",
		"f()":                                     "ok",
		"f(g(1), 'x', NULL)":                      "ok",
		"((a))":                                   "ok",
		"a::timestamp (0) with time zone IS NULL": "ok",
		"a::double precision < 1.5e3":             "ok",
		"a::character varying (10) = 'x'":         "ok",
		"a::numeric(10, 2) = .5":                  "ok",
		"a::int[] IS NULL":                        "ok",
		"a::Composite IS NULL":                    "ok",
		"(SELECT BOOL_AND( f(value) )  FROM JSONB_ARRAY_ELEMENTS(data))": "ok",
		"order = 1 AND index = 2": "ok", // reserved words are not policed
	}
	for src, want := range cases {
		_, err := ParseExpr(src)
		if got := classify(err); got != want {
			label := src
			if len(label) > 60 {
				label = label[:60] + "..."
			}
			t.Errorf("ParseExpr(%q): %s (%v), want %s", label, got, err, want)
		}
	}
}

func TestExprStringRoundTrip(t *testing.T) {
	for src, want := range map[string]string{
		"a = 1 OR b = 2 AND NOT c":          "((a = 1) OR ((b = 2) AND (NOT c)))",
		"NOT a = b":                         "(NOT (a = b))",
		"a -> 'x' ->> 'y' = 'z'":            "(((a -> 'x') ->> 'y') = 'z')",
		"a::int IN (1, -2)":                 "(a::int IN (1, -2))",
		"-1::int":                           "(- 1::int)",
		"(-1)::int":                         "(-1)::int",
		"- - 1":                             "(- -1)",
		"a IS NOT NULL AND b IS NULL":       "((a IS NOT NULL) AND (b IS NULL))",
		"x NOT IN ('it''s')":                "(x NOT IN ('it''s'))",
		"a != 1 AND b <> 2 AND c <= 3":      "(((a != 1) AND (b <> 2)) AND (c <= 3))",
		"f ( a , 1.50 , TRUE, null, false)": "f(a, 1.50, TRUE, NULL, FALSE)",
		"a || 'x' = 'y'":                    "((a || 'x') = 'y')",
		"a::TIMESTAMP (0) WITH TIME ZONE":   "a::timestamp (0) with time zone",
		"a::Composite::TEXT":                "a::Composite::text",
		"(SELECT bool_and(key IN ('A')) FROM jsonb_each(data)) AND g(data->'A')": "((SELECT bool_and((key IN ('A'))) FROM jsonb_each(data)) AND g((data -> 'A')))",
		"99999999999999999999 = 1": "(99999999999999999999 = 1)",
	} {
		e, err := ParseExpr(src)
		if err != nil {
			t.Errorf("ParseExpr(%q): %v", src, err)
			continue
		}
		if got := e.String(); got != want {
			t.Errorf("String(%q) = %q, want %q", src, got, want)
		}
		e2, err := ParseExpr(e.String())
		if err != nil {
			t.Errorf("re-parse of %q: %v", e.String(), err)
			continue
		}
		if !reflect.DeepEqual(e, e2) {
			t.Errorf("re-parse of %q gives a different tree: %q", e.String(), e2.String())
		}
	}
}

func TestFunctionBodySyntaxVersusUnsupported(t *testing.T) {
	cases := map[string]string{
		// cannot be PL/pgSQL
		`BEGIN CASE WHEN a THEN RETURN TRUE; END; END;`:      "syntax", // CASE without END CASE
		`BEGIN CASE WHEN a THEN RETURN TRUE; END IF; END;`:   "syntax",
		`BEGIN CASE END CASE; END;`:                          "syntax",
		`BEGIN CASE ELSE RETURN FALSE; END CASE; END;`:       "syntax", // no WHEN at all
		`BEGIN IF a THEN RETURN TRUE; END; END;`:             "syntax", // IF without END IF
		`BEGIN IF a THEN RETURN TRUE; END CASE; END;`:        "syntax",
		`BEGIN IF a RETURN TRUE; END IF; END;`:               "syntax",
		`BEGIN IF a THEN RETURN TRUE END IF; END;`:           "syntax",
		`BEGIN IF a THEN RETURN TRUE; END IF END;`:           "syntax",
		`BEGIN RETURN TRUE; END; garbage`:                    "syntax",
		`BEGIN RETURN TRUE;`:                                 "syntax",
		`RETURN TRUE; END;`:                                  "syntax",
		`BEGIN RETURN (1; END;`:                              "syntax",
		`BEGIN RETURN 'abc; END;`:                            "syntax",
		`BEGIN RETURN data IN (); END;`:                      "syntax",
		`BEGIN RETURN data = ; END;`:                         "syntax",
		`BEGIN RETURN TRUE AND; END;`:                        "syntax",
		`BEGIN RETURN key IN ('it's'); END;`:                 "syntax",
		`BEGIN undeclared := TRUE; RETURN TRUE; END;`:        "syntax", // "undeclared" is not a known variable
		`BEGIN ELSE RETURN TRUE; END;`:                       "syntax",
		`BEGIN 12; END;`:                                     "syntax",
		`BEGIN RAISE WARNING '% %', data; RETURN TRUE; END;`: "syntax", // too few parameters
		`BEGIN RAISE WARNING 'x', data; RETURN TRUE; END;`:   "syntax", // too many parameters
		`BEGIN RAISE WARNING 12; RETURN TRUE; END;`:          "syntax",
		`DECLARE x boolean BEGIN RETURN x; END;`:             "syntax",
		`DECLARE x; BEGIN RETURN x; END;`:                    "syntax",
		`DECLARE x boolean := ; BEGIN RETURN x; END;`:        "syntax",
		`DECLARE x boolean;`:                                 "syntax",
		`BEGIN RETURN TRUE; END; /* open`:                    "syntax",
		`BEGIN WHEN a THEN RETURN TRUE; END;`:                "syntax",
		``:                                                   "syntax",

		// valid PL/pgSQL outside the subset
		`BEGIN LOOP EXIT; END LOOP; RETURN TRUE; END;`:                     "unsupported",
		`BEGIN WHILE a LOOP NULL; END LOOP; RETURN TRUE; END;`:             "unsupported",
		`BEGIN FOR i IN 1..3 LOOP NULL; END LOOP; RETURN TRUE; END;`:       "unsupported",
		`BEGIN PERFORM f(data); RETURN TRUE; END;`:                         "unsupported",
		`DECLARE n integer; BEGIN SELECT 1 INTO n; RETURN TRUE; END;`:      "unsupported",
		`BEGIN EXECUTE 'select 1'; RETURN TRUE; END;`:                      "unsupported",
		`BEGIN RETURN QUERY SELECT 1; END;`:                                "unsupported",
		`BEGIN RETURN; END;`:                                               "unsupported",
		`BEGIN CASE data WHEN 1 THEN RETURN TRUE; END CASE; END;`:          "unsupported", // simple CASE
		`BEGIN BEGIN RETURN TRUE; END; END;`:                               "unsupported", // nested block
		`BEGIN RETURN TRUE; EXCEPTION WHEN others THEN RETURN FALSE; END;`: "unsupported",
		`BEGIN RAISE; END;`:                                                "unsupported",
		`BEGIN RAISE EXCEPTION 'x' USING ERRCODE = '22000'; END;`:          "unsupported",
		`BEGIN RAISE division_by_zero; END;`:                               "unsupported",
		`DECLARE x CONSTANT boolean := TRUE; BEGIN RETURN x; END;`:         "unsupported",
		`DECLARE x boolean NOT NULL := TRUE; BEGIN RETURN x; END;`:         "unsupported",
		`DECLARE x t.c%TYPE; BEGIN RETURN TRUE; END;`:                      "unsupported",
		`<<lbl>> BEGIN RETURN TRUE; END;`:                                  "unsupported",
		`BEGIN RETURN TRUE; END lbl;`:                                      "unsupported",
		`BEGIN RETURN row_number() OVER (); END;`:                          "unsupported",
		`BEGIN RETURN data + 1 > 2; END;`:                                  "unsupported",
		`BEGIN data.x := 1; RETURN TRUE; END;`:                             "unsupported",
		`BEGIN ASSERT TRUE; RETURN TRUE; END;`:                             "unsupported",
		`BEGIN RETURN (SELECT bool_or(TRUE) FROM jsonb_each(data)); END;`:  "unsupported",

		// in the subset
		`BEGIN RETURN TRUE; END;`:         "ok",
		`BEGIN RETURN TRUE; END`:          "ok",
		`begin return true; end;`:         "ok",
		`DECLARE BEGIN RETURN TRUE; END;`: "ok",
		`DECLARE x boolean = TRUE; y integer DEFAULT 3; BEGIN data = NULL; RETURN x; END;`: "ok",
		`BEGIN -- comment
			IF a THEN NULL; ELSEIF b THEN NULL; ELSE NULL; END IF; /* c */ RETURN TRUE; END;`: "ok",
	}
	for body, want := range cases {
		src := "CREATE FUNCTION f (data jsonb, a boolean, b boolean) RETURNS boolean AS $$" + body + "$$ LANGUAGE plpgsql;"
		_, err := ParseScript(src)
		if got := classify(err); got != want {
			t.Errorf("body %q: %s (%v), want %s", body, got, err, want)
		}
	}
}

func TestScriptSyntaxVersusUnsupported(t *testing.T) {
	cases := map[string]string{
		// cannot be PostgreSQL
		"CREATE TABLE t (a integer;":                              "syntax",
		"CREATE TABLE t a integer);":                              "syntax",
		"CREATE TABLE t (a integer,);":                            "syntax",
		"CREATE TABLE t (a);":                                     "syntax",
		"CREATE TABLE t (a NOT NULL);":                            "syntax",
		"CREATE TABLE t (a integer NOT);":                         "syntax",
		"CREATE TABLE t (a integer CHECK a > 1);":                 "syntax",
		"CREATE TABLE t (a integer CHECK (a IN ()));":             "syntax",
		"CREATE TABLE t (a integer, a text);":                     "syntax",
		"CREATE TABLE t (a integer) garbage (;":                   "syntax",
		"CREATE TABLE (a integer);":                               "syntax",
		"CREATE TABLE t (a text CHECK (a IN ('it's')) NOT NULL);": "syntax",
		"CREATE TYPE c AS (a integer, );":                         "syntax",
		"CREATE TYPE c AS a integer;":                             "syntax",
		"CREATE FUNCTION f (data jsonb) RETURNS boolean AS $$ BEGIN RETURN TRUE; END; LANGUAGE plpgsql;":   "syntax", // unterminated $$
		"CREATE FUNCTION f (data jsonb RETURNS boolean AS $$ BEGIN RETURN TRUE; END; $$ LANGUAGE plpgsql;": "syntax",
		"CREATE FUNCTION f (data jsonb) RETURNS boolean AS LANGUAGE plpgsql;":                              "syntax",
		"CREATE FUNCTION f (data jsonb) RETURNS boolean AS $$ BEGIN RETURN TRUE; END; $$ LANGUAGE;":        "syntax",
		"CREATE FUNCTION f (data jsonb);":                                                     "syntax",
		"ALTER TABLE t ADD CHECK (a = );":                                                     "syntax",
		"ALTER TABLE t ADD CHECK (a = 1;":                                                     "syntax",
		"ALTER TABLE t ADD CHECK a = 1;":                                                      "syntax",
		"ALTER TABLE t ADD CHECK (a IN ());":                                                  "syntax",
		"ALTER TABLE t ADD FOREIGN KEY (a) REFERENCES;":                                       "syntax",
		"ALTER TABLE t ADD FOREIGN KEY a REFERENCES u;":                                       "syntax",
		"ALTER TABLE t ADD FOREIGN KEY (a) u;":                                                "syntax",
		"ALTER TABLE t ADD FOREIGN KEY () REFERENCES u;":                                      "syntax",
		"ALTER TABLE t ADD FOREIGN KEY (a,) REFERENCES u;":                                    "syntax",
		"ALTER TABLE t ADD FOREIGN KEY (a) REFERENCES u ON DELETE;":                           "syntax",
		"ALTER TABLE t ADD FOREIGN KEY (a) REFERENCES u ON DELETE EXPLODE;":                   "syntax",
		"ALTER TABLE t ADD FOREIGN KEY (a) REFERENCES u ON DELETE SET;":                       "syntax",
		"ALTER TABLE t ADD FOREIGN KEY (a) REFERENCES u ON CASCADE;":                          "syntax",
		"ALTER TABLE t ADD FOREIGN KEY (a) REFERENCES u ON DELETE CASCADE ON DELETE CASCADE;": "syntax",
		"ALTER TABLE t ADD UNIQUE (a b);":                                                     "syntax",
		"ALTER TABLE t ADD UNIQUE (a) 12;":                                                    "syntax",
		"ALTER TABLE t ALTER COLUMN a SET DEFAULT ;":                                          "syntax",
		"ALTER TABLE t ALTER COLUMN a SET DEFAULT 1 2;":                                       "syntax",
		"ALTER TABLE;":      "syntax",
		"ALTER TABLE t;":    "syntax",
		"SELECT (1;":        "syntax",
		"SELECT 1);":        "syntax",
		"SELECT 'abc;":      "syntax",
		"SELECT 1 /* open;": "syntax",
		"12 monkeys;":       "syntax",
		"= 1;":              "syntax",
		"SELECT {1};":       "syntax",

		// valid SQL outside the subset, inside modelled statements
		"CREATE TABLE t (a integer DEFAULT 1);":                                                                "unsupported",
		"CREATE TABLE t (a integer UNIQUE);":                                                                   "unsupported",
		"CREATE TABLE t (a integer REFERENCES u);":                                                             "unsupported",
		"CREATE TABLE t (a integer, PRIMARY KEY (a));":                                                         "unsupported",
		"CREATE TABLE t (a integer, CONSTRAINT c CHECK (a > 1));":                                              "unsupported",
		"CREATE TABLE t (a integer CHECK (a > 1) CHECK (a < 5));":                                              "unsupported",
		"CREATE TABLE t (a integer CHECK (a + 1 > 1));":                                                        "unsupported",
		"CREATE TABLE t (a integer) INHERITS (u);":                                                             "unsupported",
		"CREATE TABLE t AS SELECT 1;":                                                                          "unsupported",
		"CREATE TABLE s.t (a integer);":                                                                        "unsupported",
		"CREATE TABLE \"T\" (a integer);":                                                                      "unsupported",
		"CREATE TABLE t (\"A\" integer);":                                                                      "unsupported",
		"CREATE TYPE e AS ENUM ('a', 'b');":                                                                    "unsupported",
		"CREATE TYPE e;":                                                                                       "unsupported",
		"CREATE FUNCTION f (data jsonb) RETURNS boolean AS $$ SELECT TRUE $$ LANGUAGE sql;":                    "unsupported",
		"CREATE FUNCTION f (jsonb) RETURNS boolean AS $$ BEGIN RETURN TRUE; END; $$ LANGUAGE plpgsql;":         "unsupported",
		"CREATE FUNCTION f (IN data jsonb) RETURNS boolean AS $$ BEGIN RETURN TRUE; END; $$ LANGUAGE plpgsql;": "unsupported",
		"CREATE FUNCTION f (data jsonb DEFAULT NULL) RETURNS boolean AS $$ BEGIN RETURN TRUE; END; $$ LANGUAGE plpgsql;":     "unsupported",
		"CREATE FUNCTION f (data jsonb) RETURNS SETOF boolean AS $$ BEGIN RETURN TRUE; END; $$ LANGUAGE plpgsql;":            "unsupported",
		"CREATE FUNCTION f (data jsonb) RETURNS boolean AS $$ BEGIN RETURN TRUE; END; $$ LANGUAGE plpgsql SECURITY DEFINER;": "unsupported",
		"CREATE FUNCTION f (data jsonb) RETURNS boolean AS 'BEGIN RETURN TRUE; END;' LANGUAGE plpgsql;":                      "unsupported",
		"CREATE FUNCTION f (data jsonb) RETURNS boolean AS $$ BEGIN RETURN TRUE; END; $$;":                                   "unsupported",
		"CREATE FUNCTION f (data jsonb) RETURNS boolean LANGUAGE plpgsql;":                                                   "unsupported",
		"CREATE FUNCTION f (data jsonb) RETURNS boolean AS $$ BEGIN LOOP NULL; END LOOP; END; $$ LANGUAGE plpgsql;":          "unsupported",
		"ALTER TABLE t ADD CHECK (a LIKE 'x%');":                                                                             "unsupported",
		"ALTER TABLE t ADD CHECK (rank() OVER () > 1);":                                                                      "unsupported",
		"ALTER TABLE s.t ADD CHECK (a = 1);":                                                                                 "unsupported",
		"ALTER TABLE t ADD FOREIGN KEY (a) REFERENCES s.u;":                                                                  "unsupported",
		"ALTER TABLE t ADD FOREIGN KEY (a) REFERENCES u ON DELETE SET NULL (a);":                                             "unsupported",
		"ALTER TABLE t ALTER COLUMN a SET DEFAULT now();":                                                                    "ok", // parses; evaluation would report the unknown function
		"ALTER TABLE t ALTER COLUMN a SET DEFAULT 1 + 1;":                                                                    "unsupported",

		// whole statements that are not modelled are kept
		"CREATE VIEW v AS SELECT (1 + 2) AS x FROM t WHERE a LIKE 'x;y';": "ok",
		"CREATE UNIQUE INDEX i ON t (a);":                                 "ok",
		"DROP TABLE t;":                                                   "ok",
		"(SELECT 1);":                                                     "ok",
		";;":                                                              "ok",
		"":                                                                "ok",
		"-- only a comment":                                               "ok",
		"SELECT 1":                                                        "ok", // a final statement without ';'
		"DO $do$ BEGIN NULL; END $do$;":                                   "ok",
	}
	for src, want := range cases {
		_, err := ParseScript(src)
		if got := classify(err); got != want {
			t.Errorf("ParseScript(%q): %s (%v), want %s", src, got, err, want)
		}
	}
}

func TestScriptStructure(t *testing.T) {
	src := `-- header
create  table  If Not Exists T1 ( Id SERIAL primary key , N Integer not null check ( N in ( 1 , 2 ) ) , D Date NULL, X DOUBLE PRECISION, V VarChar ( 10 ) [] ) ; -- trailing
CREATE TYPE C AS ();
Alter Table Only T1 Add Constraint ck Check ( N = 1 /* c */ ) ;
alter table t1 add constraint fk foreign key ( a , b ) references T2 ( x , y ) on update no action on delete set null ;
ALTER TABLE t1 ADD FOREIGN KEY (a) REFERENCES t2 ON DELETE SET DEFAULT;
ALTER TABLE t1 ADD FOREIGN KEY (a) REFERENCES t2 ON DELETE RESTRICT DEFERRABLE INITIALLY DEFERRED;
ALTER TABLE t1 ADD PRIMARY KEY (a);
ALTER TABLE t1 ADD CONSTRAINT u UNIQUE (a, b);
ALTER TABLE t1 ALTER n SET DEFAULT -1;
ALTER TABLE t1 ALTER COLUMN n DROP DEFAULT;
ALTER TABLE t1 ADD COLUMN z integer;
ALTER TABLE t1 DROP CONSTRAINT ck;
ALTER TABLE t1 ADD CHECK (n = 1) NOT VALID;
ALTER TABLE t1 ADD CHECK (n = 1), ADD CHECK (n = 2);
ALTER TABLE t1 ADD UNIQUE USING INDEX i;
CREATE OR REPLACE FUNCTION F () RETURNS boolean AS $body$ BEGIN RETURN TRUE; END; $body$ LANGUAGE plpgsql STABLE;
CREATE OR REPLACE FUNCTION F () RETURNS boolean AS $body$ BEGIN RETURN TRUE; END; $body$ LANGUAGE plpgsql STABLE;
CREATE OR REPLACE FUNCTION g () RETURNS boolean AS $$ BEGIN RETURN TRUE; END; $$ LANGUAGE plpgsql;
CREATE OR REPLACE FUNCTION G () RETURNS boolean AS $$ BEGIN RETURN FALSE; END; $$ LANGUAGE plpgsql;
CREATE FUNCTION h () RETURNS boolean AS $$ BEGIN RETURN TRUE; END; $$ LANGUAGE plpgsql;
CREATE FUNCTION h () RETURNS boolean AS $$ BEGIN RETURN TRUE; END; $$ LANGUAGE plpgsql;
COMMENT ON TABLE t1 IS 'a ; b';
`
	s, err := ParseScript(src)
	if err != nil {
		t.Fatal(err)
	}
	if len(s.Tables) != 1 || s.Tables[0].Name != "T1" {
		t.Fatalf("tables: %+v", s.Tables)
	}
	type col struct {
		Name, Type  string
		NotNull, PK bool
		Check       string
	}
	var cols []col
	for _, c := range s.Tables[0].Columns {
		check := ""
		if c.Check != nil {
			check = c.Check.String()
		}
		cols = append(cols, col{c.Name, c.Type, c.NotNull, c.PrimaryKey, check})
	}
	wantCols := []col{
		{"Id", "serial", false, true, ""},
		{"N", "integer", true, false, "(N IN (1, 2))"},
		{"D", "date", false, false, ""},
		{"X", "double precision", false, false, ""},
		{"V", "varchar (10)[]", false, false, ""},
	}
	if !reflect.DeepEqual(cols, wantCols) {
		t.Errorf("columns:\n got %+v\nwant %+v", cols, wantCols)
	}
	if got := s.Tables[0].Columns[1].Raw; got != "N Integer not null check ( N in ( 1 , 2 ) )" {
		t.Errorf("column Raw: %q", got)
	}
	if len(s.Types) != 1 || s.Types[0].Name != "C" || len(s.Types[0].Fields) != 0 {
		t.Errorf("types: %+v", s.Types)
	}
	type ct struct {
		Table, Kind, Name  string
		Cols               []string
		Ref                string
		RefCols            []string
		OnDelete, OnUpdate string
		Expr               string
	}
	var got []ct
	for _, c := range s.Constraints {
		expr := ""
		if c.Check != nil {
			expr = c.Check.String()
		}
		if c.Default != nil {
			expr = c.Default.String()
		}
		got = append(got, ct{c.Table, c.Kind, c.Name, c.Columns, c.RefTable, c.RefColumns, c.OnDelete, c.OnUpdate, expr})
	}
	want := []ct{
		{Table: "T1", Kind: "check", Name: "ck", Expr: "(N = 1)"},
		{Table: "t1", Kind: "foreign_key", Name: "fk", Cols: []string{"a", "b"}, Ref: "T2", RefCols: []string{"x", "y"}, OnDelete: "SET NULL", OnUpdate: "NO ACTION"},
		{Table: "t1", Kind: "foreign_key", Cols: []string{"a"}, Ref: "t2", OnDelete: "SET DEFAULT"},
		{Table: "t1", Kind: "other"},
		{Table: "t1", Kind: "primary_key", Cols: []string{"a"}},
		{Table: "t1", Kind: "unique", Name: "u", Cols: []string{"a", "b"}},
		{Table: "t1", Kind: "set_default", Cols: []string{"n"}, Expr: "-1"},
		{Table: "t1", Kind: "other"},
		{Table: "t1", Kind: "other"},
		{Table: "t1", Kind: "other"},
		{Table: "t1", Kind: "other"},
		{Table: "t1", Kind: "other"},
		{Table: "t1", Kind: "other"},
	}
	if !reflect.DeepEqual(got, want) {
		for i := range got {
			if i < len(want) && !reflect.DeepEqual(got[i], want[i]) {
				t.Errorf("constraint %d (%q):\n got %+v\nwant %+v", i, s.Constraints[i].Raw, got[i], want[i])
			}
		}
		if len(got) != len(want) {
			t.Errorf("%d constraints, want %d", len(got), len(want))
		}
	}
	if raw := s.Constraints[0].Raw; raw != "Alter Table Only T1 Add Constraint ck Check ( N = 1 /* c */ )" {
		t.Errorf("Raw: %q", raw)
	}
	if !reflect.DeepEqual(s.FunctionDup, []string{"g", "h"}) {
		t.Errorf("FunctionDup: %v", s.FunctionDup)
	}
	if len(s.Functions) != 3 || s.Functions["f"].Volatility != "STABLE" || len(s.Functions["f"].Params) != 0 {
		t.Errorf("functions: %+v", s.Functions)
	}
	if v, err := s.Call("g"); err != nil || v != false {
		t.Errorf("the last definition wins: %v %v", v, err)
	}
	if !reflect.DeepEqual(s.Other, []string{"COMMENT ON TABLE t1 IS 'a ; b'"}) {
		t.Errorf("other: %q", s.Other)
	}
	if !reflect.DeepEqual(s.Comments, []string{"-- header", "-- trailing"}) {
		t.Errorf("comments: %q", s.Comments)
	}
	if !IsReservedWord("Order") || IsReservedWord("Index") || Fold("AbC") != "abc" {
		t.Errorf("IsReservedWord / Fold")
	}
}

func TestErrorPositions(t *testing.T) {
	_, err := ParseScript("CREATE TABLE t (a integer);\nCREATE FUNCTION f (data jsonb) RETURNS boolean AS $$\nBEGIN\n  RETURN data IN ();\nEND;\n$$ LANGUAGE plpgsql;")
	var se *SyntaxError
	if !errors.As(err, &se) || se.Line != 4 || se.Col != 19 {
		t.Errorf("position: %v", err)
	}
	_, err = ParseExpr("a +\n b")
	var ue *Unsupported
	if !errors.As(err, &ue) || ue.Line != 1 || ue.Col != 3 || !strings.Contains(ue.Error(), "1:3") {
		t.Errorf("position: %v", err)
	}
}

// ---------------------------------------------------------------- robustness

var mutationAlphabet = []string{
	"'", "''", "(", ")", "$$", "$", ";", ",", "--", "/*", "*/", "\n", " ", "::", ":=", "=", "->", "->>", "#>>", "||",
	"[", "]", ".", "\"", "\\", "{", "}", "%", "-", "+", "0", "1.5e", "e", "E'", "\x00", "\xff", "é",
	"AND", "OR", "NOT", "IN", "IS", "NULL", "CASE", "WHEN", "THEN", "ELSE", "END", "IF", "BEGIN", "DECLARE",
	"RETURN", "RAISE", "SELECT", "FROM", "CHECK", "ALTER", "TABLE", "CREATE", "FUNCTION", "ADD", "LOOP",
	" IN ()", " OVER (", "bool_and(", "jsonb_each(", "$tag$", "$1",
}

func mutate(r *rand.Rand, src string) string {
	b := []byte(src)
	n := 1 + r.Intn(4)
	for k := 0; k < n && len(b) > 0; k++ {
		pos := r.Intn(len(b))
		switch r.Intn(6) {
		case 0: // delete a span
			end := pos + 1 + r.Intn(8)
			if end > len(b) {
				end = len(b)
			}
			b = append(b[:pos:pos], b[end:]...)
		case 1: // insert a token
			tok := mutationAlphabet[r.Intn(len(mutationAlphabet))]
			b = append(b[:pos:pos], append([]byte(tok), b[pos:]...)...)
		case 2: // replace a byte
			b[pos] = byte(r.Intn(256))
		case 3: // duplicate a span
			end := pos + 1 + r.Intn(20)
			if end > len(b) {
				end = len(b)
			}
			span := append([]byte{}, b[pos:end]...)
			b = append(b[:end:end], append(span, b[end:]...)...)
		case 4: // truncate
			b = b[:pos]
		case 5: // swap two spans
			q := r.Intn(len(b))
			b[pos], b[q] = b[q], b[pos]
		}
	}
	return string(b)
}

func TestParsersNeverPanic(t *testing.T) {
	text, _ := realOutput(t)
	seed, iterations := int64(20240926), 4000
	if v, err := strconv.ParseInt(os.Getenv("PGX_FUZZ_SEED"), 10, 64); err == nil {
		seed = v // local exploration only; the default run is deterministic
	}
	if v, err := strconv.Atoi(os.Getenv("PGX_FUZZ_ITER")); err == nil {
		iterations = v
	}
	r := rand.New(rand.NewSource(seed))

	// whole-script mutations, and mutations of single statements (cheaper, denser)
	stmts := strings.SplitAfter(text, ";\n")
	if testing.Short() {
		iterations = 500
	}
	okCount, synCount, unsCount := 0, 0, 0
	try := func(kind string, src string, f func(string) error) {
		defer func() {
			if p := recover(); p != nil {
				t.Fatalf("%s panicked on %q: %v", kind, src, p)
			}
		}()
		err := f(src)
		switch classify(err) {
		case "ok":
			okCount++
		case "syntax":
			synCount++
		case "unsupported":
			unsCount++
		default:
			t.Fatalf("%s on %q: unexpected error type %T: %v", kind, src, err, err)
		}
	}
	parseScript := func(s string) error { _, err := ParseScript(s); return err }
	parseExpr := func(s string) error {
		e, err := ParseExpr(s)
		if err == nil {
			// what parses must print and re-parse to the same tree
			e2, err2 := ParseExpr(e.String())
			if err2 != nil || !reflect.DeepEqual(e, e2) {
				t.Fatalf("round trip of %q via %q failed: %v", s, e.String(), err2)
			}
		}
		return err
	}
	for i := 0; i < iterations/10; i++ {
		try("ParseScript", mutate(r, text), parseScript)
	}
	for i := 0; i < iterations; i++ {
		st := stmts[r.Intn(len(stmts))]
		try("ParseScript", mutate(r, st), parseScript)
	}
	exprs := []string{
		"jsonb_typeof(data) = 'number' AND data::int IN (0, 1, 2, 4)",
		"(SELECT bool_and( key IN ('with_tag', 'Time', 'B') ) FROM jsonb_each(data)) AND f(data->'with_tag') AND g(data->'Time')",
		"jsonb_typeof(data) != 'object' OR jsonb_typeof(data->'Kind') != 'string' OR jsonb_typeof(data->'Data') = 'null'",
		"(SELECT bool_and( gomacro_validate_json_number(value) )  FROM jsonb_array_elements(data)) AND jsonb_array_length(data) = 5",
		"V = 0 /* LocalEnum.A */ OR V = 1 /* LocalEnum.B */",
		"data#>>'{}' IN ('a', 'it''s', 'c') AND x IS NOT NULL AND NOT (y <> -1.5e3)",
		"array_length(F, 1) = 5",
	}
	for i := 0; i < iterations; i++ {
		try("ParseExpr", mutate(r, exprs[r.Intn(len(exprs))]), parseExpr)
	}
	// pure noise
	for i := 0; i < iterations; i++ {
		n := 1 + r.Intn(12)
		var b strings.Builder
		for k := 0; k < n; k++ {
			b.WriteString(mutationAlphabet[r.Intn(len(mutationAlphabet))])
			if r.Intn(2) == 0 {
				b.WriteByte(' ')
			}
		}
		try("ParseExpr", b.String(), parseExpr)
		try("ParseScript", b.String(), parseScript)
	}
	t.Logf("outcomes: %d ok, %d syntax errors, %d unsupported", okCount, synCount, unsCount)
	if okCount == 0 || synCount == 0 || unsCount == 0 {
		t.Errorf("the mutation loop is not exercising all three outcomes")
	}
}

// Evaluating whatever parses must not panic either.
func TestEvalNeverPanics(t *testing.T) {
	_, s := realOutput(t)
	seed := int64(7)
	if v, err := strconv.ParseInt(os.Getenv("PGX_FUZZ_SEED"), 10, 64); err == nil {
		seed = v
	}
	r := rand.New(rand.NewSource(seed))
	exprs := []string{
		"jsonb_typeof(data) = 'number' AND data::int IN (0, 1, 2, 4)",
		"(SELECT bool_and( key IN ('a', 'b') ) FROM jsonb_each(data)) AND gomacro_validate_json_number(data->'a')",
		"(SELECT bool_and( gomacro_validate_json_test_ItfType(value) )  FROM jsonb_array_elements(data)) AND jsonb_array_length(data) = 2",
		"data#>>'{}' IN ('a', 'b') OR data->>'Kind' = 'x' OR data -> 0 IS NULL",
		"gomacro_validate_json_test_ComplexStruct(data)",
		"array_length(arr, 1) = 2 AND n = -1 AND NOT b",
	}
	docs := []Value{nil, j(`null`), j(`1`), j(`"a"`), j(`[1, 2]`), j(`{"a": 1, "b": "x"}`), j(validPage), j(`[{"Kind":"ConcretType2","Data":{"D":1}}, 3]`),
		"text", int64(3), 1.5, true, Array{int64(1), int64(2)}}
	evaluated := 0
	for i := 0; i < 3000; i++ {
		src := mutate(r, exprs[r.Intn(len(exprs))])
		e, err := ParseExpr(src)
		if err != nil {
			continue
		}
		env := map[string]Value{
			"data": docs[r.Intn(len(docs))], "arr": docs[r.Intn(len(docs))], "n": docs[r.Intn(len(docs))], "b": docs[r.Intn(len(docs))],
		}
		func() {
			defer func() {
				if p := recover(); p != nil {
					t.Fatalf("Eval panicked on %q: %v", src, p)
				}
			}()
			_, err := s.Eval(e, env)
			evaluated++
			switch err.(type) {
			case nil, *RaisedError, *Unsupported, *UndefinedFunction, *UndefinedColumn:
			default:
				t.Fatalf("Eval(%q): unexpected error type %T: %v", src, err, err)
			}
		}()
	}
	if evaluated < 100 {
		t.Errorf("only %d expressions evaluated", evaluated)
	}
}
