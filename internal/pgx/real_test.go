package pgx

import (
	"fmt"
	"os"
	"path/filepath"
	"reflect"
	"sort"
	"strings"
	"sync"
	"testing"

	"github.com/benoitkugler/gomacro/analysis"
	"github.com/benoitkugler/gomacro/generator"
	sqlgen "github.com/benoitkugler/gomacro/generator/sql"
	"golang.org/x/tools/go/packages"
)

const modelsFile = "/repo/analysis/sql/test/models.go"

var (
	realOnce   sync.Once
	realText   string
	realScript *Script
	realErr    error
)

// realOutput runs the generator under test on its own fixture.
func realOutput(t testing.TB) (string, *Script) {
	t.Helper()
	realOnce.Do(func() {
		if _, err := os.Stat(modelsFile); err != nil {
			realErr = err
			return
		}
		// The fixture directory holds a generated crud_gen.go which the
		// repository's own tests rewrite unformatted (with a self-import), so
		// analysis.LoadSource fails on it. The overlay blanks that file out; the
		// models do not depend on it.
		pkgs, err := packages.Load(&packages.Config{
			Dir: filepath.Dir(modelsFile),
			Mode: packages.NeedName | packages.NeedFiles | packages.NeedSyntax |
				packages.NeedTypes | packages.NeedImports | packages.NeedDeps | packages.NeedTypesInfo,
			Overlay: map[string][]byte{
				filepath.Join(filepath.Dir(modelsFile), "crud_gen.go"): []byte("package test\n"),
			},
		}, "file="+modelsFile)
		if err != nil {
			realErr = err
			return
		}
		if len(pkgs) != 1 || len(pkgs[0].Errors) != 0 {
			realErr = fmt.Errorf("loading %s: %d packages, errors %v", modelsFile, len(pkgs), pkgs[0].Errors)
			return
		}
		pkg := pkgs[0]
		an := analysis.NewAnalysisFromFile(pkg, modelsFile)
		realText = generator.WriteDeclarations(sqlgen.Generate(an))
		realScript, realErr = ParseScript(realText)
	})
	if realErr != nil {
		t.Fatalf("real output: %v", realErr)
	}
	return realText, realScript
}

type wantCol struct {
	name, typ string
	notNull   bool
	pk        bool
	check     string // String() of the CHECK, "" if none
}

func TestRealScriptTables(t *testing.T) {
	_, s := realOutput(t)

	want := []struct {
		name string
		cols []wantCol
	}{
		{"exercices", []wantCol{
			{"Id", "serial", false, true, ""},
			{"Title", "text", true, false, ""},
			{"Description", "text", true, false, ""},
			{"Parameters", "jsonb", true, false, ""},
			{"Flow", "integer", true, false, "(Flow IN (0, 1, 2, 4))"},
			{"IdTeacher", "integer", true, false, ""},
			{"Public", "boolean", true, false, ""},
		}},
		{"exercice_questions", []wantCol{
			{"IdExercice", "integer", true, false, ""},
			{"IdQuestion", "integer", true, false, ""},
			{"Bareme", "smallint", true, false, ""},
			{"Index", "integer", true, false, ""},
		}},
		{"links", []wantCol{
			{"Repas", "integer", true, false, ""},
			{"IdTable1", "integer", true, false, ""},
		}},
		{"progressions", []wantCol{
			{"Id", "serial", false, true, ""},
			{"IdExercice", "integer", true, false, ""},
		}},
		{"progression_questions", []wantCol{
			{"IdProgression", "integer", true, false, ""},
			{"IdExercice", "integer", true, false, ""},
			{"Index", "integer", true, false, ""},
			{"History", "integer[]", false, false, ""},
		}},
		{"questions", []wantCol{
			{"Id", "serial", false, true, ""},
			{"Page", "jsonb", true, false, ""},
			{"Public", "boolean", true, false, ""},
			{"IdTeacher", "integer", true, false, ""},
			{"Description", "text", true, false, ""},
			{"NeedExercice", "integer", false, false, ""},
		}},
		{"question_tags", []wantCol{
			{"Tag", "text", true, false, ""},
			{"IdQuestion", "integer", true, false, ""},
		}},
		{"repass", []wantCol{
			{"Order", "text", true, false, ""},
			{"Id", "serial", false, true, ""},
			{"V", "smallint", true, false, "(V IN (0, 1, 2))"},
		}},
		{"table1s", []wantCol{
			{"Id", "serial", false, true, ""},
			{"Ex1", "integer", true, false, ""},
			{"Ex2", "integer", true, false, ""},
			{"L", "integer", false, false, ""},
			{"Other", "integer", false, false, ""},
			{"F", "integer[]", true, false, "(array_length(F, 1) = 5)"},
			{"Strings", "text[]", false, false, ""},
			{"Cp", "Composite", true, false, ""},
			{"External", "Comp", true, false, ""},
			{"BoolArray", "boolean[]", true, false, "(array_length(BoolArray, 1) = 3)"},
			{"guard", "smallint", true, false, "(guard IN (0, 1, 2))"},
			{"OptKey", "integer", false, false, ""},
		}},
		{"with_optional_times", []wantCol{
			{"Id", "serial", false, true, ""},
			{"Deadine", "timestamp (0) with time zone", true, false, ""},
			{"DeadineOpt", "timestamp (0) with time zone", false, false, ""},
		}},
	}
	if len(s.Tables) != len(want) {
		t.Fatalf("got %d tables, want %d", len(s.Tables), len(want))
	}
	for i, w := range want {
		tb := s.Tables[i]
		if tb.Name != w.name {
			t.Errorf("table %d: name %q, want %q", i, tb.Name, w.name)
			continue
		}
		if !strings.HasPrefix(tb.Raw, "CREATE TABLE "+w.name) {
			t.Errorf("table %s: Raw = %q", w.name, tb.Raw)
		}
		if len(tb.Columns) != len(w.cols) {
			t.Errorf("table %s: %d columns, want %d", w.name, len(tb.Columns), len(w.cols))
			continue
		}
		for j, wc := range w.cols {
			c := tb.Columns[j]
			check := ""
			if c.Check != nil {
				check = c.Check.String()
			}
			got := wantCol{c.Name, c.Type, c.NotNull, c.PrimaryKey, check}
			if got != wc {
				t.Errorf("table %s column %d: got %+v, want %+v", w.name, j, got, wc)
			}
			if !strings.HasPrefix(c.Raw, c.Name+" ") {
				t.Errorf("table %s column %s: Raw = %q", w.name, c.Name, c.Raw)
			}
		}
		if s.Table(strings.ToUpper(w.name)) != tb {
			t.Errorf("Table(%q) lookup failed", w.name)
		}
	}
	if c := s.Table("table1s").Column("BOOLARRAY"); c == nil || c.Name != "BoolArray" {
		t.Errorf("case-insensitive column lookup failed")
	}
}

func TestRealScriptTypesCommentsOther(t *testing.T) {
	_, s := realOutput(t)
	if len(s.Types) != 1 {
		t.Fatalf("types: %+v", s.Types)
	}
	ct := s.Types[0]
	wantFields := []struct{ Name, Type string }{{"A", "integer"}, {"B", "smallint"}, {"C", "integer"}}
	if ct.Name != "Composite" || !reflect.DeepEqual(ct.Fields, wantFields) {
		t.Errorf("composite type: %+v", ct)
	}
	if s.Type("composite") != ct {
		t.Errorf("Type lookup failed")
	}
	wantComments := []string{"-- Code genererated by gomacro/generator/sql. DO NOT EDIT.", "-- constraints"}
	if !reflect.DeepEqual(s.Comments, wantComments) {
		t.Errorf("comments: %q", s.Comments)
	}
	wantOther := []string{"CREATE UNIQUE INDEX index_name ON question_tags (Tag)"}
	if !reflect.DeepEqual(s.Other, wantOther) {
		t.Errorf("other: %q", s.Other)
	}
	if len(s.FunctionDup) != 0 {
		t.Errorf("FunctionDup: %v", s.FunctionDup)
	}
}

func TestRealScriptConstraints(t *testing.T) {
	_, s := realOutput(t)

	type wc struct {
		table, kind, name string
		cols              []string
		refTable          string
		refCols           []string
		onDelete          string
		expr              string // check or default
	}
	fk := func(table, col, ref, onDelete string) wc {
		return wc{table: table, kind: "foreign_key", cols: []string{col}, refTable: ref, onDelete: onDelete}
	}
	want := []wc{
		fk("table1s", "Ex1", "repass", ""),
		fk("table1s", "Ex2", "repass", ""),
		fk("table1s", "L", "links", ""),
		fk("table1s", "Other", "repass", ""),
		fk("table1s", "OptKey", "questions", ""),
		{table: "table1s", kind: "set_default", cols: []string{"guard"}, expr: "0"},
		{table: "table1s", kind: "check", expr: "(guard = 0)"},
		{table: "repass", kind: "check", expr: "((V = 0) OR (V = 1))"},
		fk("links", "Repas", "repass", ""),
		fk("questions", "NeedExercice", "exercices", ""),
		{table: "question_tags", kind: "unique", cols: []string{"IdQuestion", "Tag"}},
		fk("question_tags", "IdQuestion", "questions", "CASCADE"),
		{table: "exercice_questions", kind: "primary_key", cols: []string{"IdExercice", "Index"}},
		fk("exercice_questions", "IdExercice", "exercices", "CASCADE"),
		fk("exercice_questions", "IdQuestion", "questions", ""),
		{table: "progressions", kind: "unique", cols: []string{"Id", "IdExercice"}},
		{table: "progression_questions", kind: "unique", cols: []string{"IdProgression", "Index"}},
		// the generator's table name replacer appends a second "s" (oddity, kept as emitted)
		{table: "progression_questions", kind: "foreign_key", cols: []string{"IdExercice", "Index"}, refTable: "exercice_questionss", onDelete: "CASCADE"},
		{table: "progression_questions", kind: "foreign_key", cols: []string{"IdProgression", "IdExercice"}, refTable: "progressionss", refCols: []string{"Id", "IdExercice"}, onDelete: "CASCADE"},
		fk("progression_questions", "IdProgression", "progressions", "CASCADE"),
		fk("progression_questions", "IdExercice", "exercices", "CASCADE"),
		{table: "exercices", kind: "check", name: "Parameters_gomacro", expr: "gomacro_validate_json_map_boolean(Parameters)"},
		{table: "questions", kind: "check", name: "Page_gomacro", expr: "gomacro_validate_json_test_ComplexStruct(Page)"},
	}
	if len(s.Constraints) != len(want) {
		for _, c := range s.Constraints {
			t.Logf("%s %s %q", c.Table, c.Kind, c.Raw)
		}
		t.Fatalf("got %d constraints, want %d", len(s.Constraints), len(want))
	}
	for i, w := range want {
		c := s.Constraints[i]
		expr := ""
		switch {
		case c.Check != nil:
			expr = c.Check.String()
		case c.Default != nil:
			expr = c.Default.String()
		}
		got := wc{c.Table, c.Kind, c.Name, c.Columns, c.RefTable, c.RefColumns, c.OnDelete, expr}
		if !reflect.DeepEqual(got, w) {
			t.Errorf("constraint %d (%q):\n got %+v\nwant %+v", i, c.Raw, got, w)
		}
		if !strings.HasPrefix(c.Raw, "ALTER TABLE "+w.table) || strings.HasSuffix(c.Raw, ";") {
			t.Errorf("constraint %d: Raw = %q", i, c.Raw)
		}
		if c.Kind == "other" {
			t.Errorf("constraint %d not classified: %q", i, c.Raw)
		}
	}
}

func TestRealScriptFunctions(t *testing.T) {
	text, s := realOutput(t)

	n := strings.Count(text, "CREATE OR REPLACE FUNCTION")
	if n == 0 || len(s.Functions) != n {
		t.Fatalf("%d functions parsed, %d in the text", len(s.Functions), n)
	}
	wantNames := []string{
		"gomacro_validate_json_array_5_array_5_boolean", "gomacro_validate_json_array_5_boolean",
		"gomacro_validate_json_array_number", "gomacro_validate_json_array_test_itftype",
		"gomacro_validate_json_boolean", "gomacro_validate_json_map_boolean",
		"gomacro_validate_json_map_number", "gomacro_validate_json_number",
		"gomacro_validate_json_string", "gomacro_validate_json_subp_structwithcomment",
		"gomacro_validate_json_test_complexstruct", "gomacro_validate_json_test_concrettype1",
		"gomacro_validate_json_test_concrettype2", "gomacro_validate_json_test_enumint",
		"gomacro_validate_json_test_enumuint", "gomacro_validate_json_test_generic",
		"gomacro_validate_json_test_itftype",
	}
	var names []string
	for k, f := range s.Functions {
		names = append(names, k)
		if k != Fold(f.Name) {
			t.Errorf("key %q for function %q", k, f.Name)
		}
		if len(f.Params) != 1 || f.Params[0] != (Param{"data", "jsonb"}) {
			t.Errorf("%s: params %+v", f.Name, f.Params)
		}
		if f.Returns != "boolean" || f.Language != "plpgsql" || f.Volatility != "IMMUTABLE" || !f.Replace || f.Strict {
			t.Errorf("%s: header %+v", f.Name, f)
		}
		if f.Body == nil || len(f.Body.Stmts) == 0 {
			t.Errorf("%s: empty body", f.Name)
		}
	}
	sort.Strings(names)
	if !reflect.DeepEqual(names, wantNames) {
		t.Errorf("function names:\n got %v\nwant %v", names, wantNames)
	}

	// closure: everything called is defined
	for _, c := range s.CalledFunctions() {
		if _, ok := s.Functions[c]; !ok {
			t.Errorf("called but not defined: %s", c)
		}
		if IsBuiltin(c) {
			t.Errorf("builtin %s listed by CalledFunctions", c)
		}
	}
	called := s.CalledFunctions()
	if !sort.StringsAreSorted(called) || len(called) == 0 {
		t.Errorf("CalledFunctions not sorted / empty: %v", called)
	}
	// every validator but the two roots is called by another one or a CHECK
	if len(called) != len(wantNames) {
		t.Errorf("called: %v", called)
	}

	// spot-check the shape of one parsed body
	f := s.Functions["gomacro_validate_json_test_itftype"]
	if len(f.Body.Stmts) != 2 {
		t.Fatalf("ItfType body: %d statements", len(f.Body.Stmts))
	}
	cs, ok := f.Body.Stmts[1].(*CaseStmt)
	if !ok || len(cs.Whens) != 2 || !cs.HasElse {
		t.Fatalf("ItfType CASE: %+v", f.Body.Stmts[1])
	}
	if got := cs.Whens[0].Cond.String(); got != "((data ->> 'Kind') = 'ConcretType1')" {
		t.Errorf("WHEN condition: %s", got)
	}
	f = s.Functions["gomacro_validate_json_test_enumint"]
	if len(f.Body.Decls) != 1 || f.Body.Decls[0].Name != "is_valid" || f.Body.Decls[0].Type != "boolean" ||
		f.Body.Decls[0].Init.String() != "((jsonb_typeof(data) = 'number') AND (data::int IN (0, 1, 2, 4)))" {
		t.Errorf("EnumInt declaration: %+v %s", f.Body.Decls[0], f.Body.Decls[0].Init)
	}
}

// The committed fixture of the repository parses to the same structure.
func TestCommittedFixtureParses(t *testing.T) {
	b, err := os.ReadFile("/repo/generator/sql/test/create.sql")
	if err != nil {
		t.Skip(err)
	}
	s, err := ParseScript(string(b))
	if err != nil {
		t.Fatal(err)
	}
	if len(s.Tables) == 0 || len(s.Functions) == 0 || len(s.Constraints) == 0 {
		t.Errorf("fixture parsed to an empty script")
	}
}
