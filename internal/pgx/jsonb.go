package pgx

import (
	"bytes"
	"encoding/json"
	"errors"
	"io"
	"math"
	"sort"
	"strconv"
	"strings"
)

// JSON is a jsonb value. V is what encoding/json decodes with UseNumber:
// nil, bool, json.Number, string, []interface{}, map[string]interface{}.
// JSON{nil} is the jsonb 'null', which is NOT the SQL NULL.
type JSON struct{ V interface{} }

// ParseJSON decodes a JSON text into a jsonb value.
func ParseJSON(text string) (JSON, error) {
	dec := json.NewDecoder(strings.NewReader(text))
	dec.UseNumber()
	var v interface{}
	if err := dec.Decode(&v); err != nil {
		return JSON{}, err
	}
	if _, err := dec.Token(); err != io.EOF {
		return JSON{}, errors.New("unexpected data after the JSON value")
	}
	return JSON{V: v}, nil
}

// jsonKind returns the jsonb_typeof name of v.
func jsonKind(v interface{}) (string, error) {
	switch v.(type) {
	case nil:
		return "null", nil
	case bool:
		return "boolean", nil
	case json.Number:
		return "number", nil
	case string:
		return "string", nil
	case []interface{}:
		return "array", nil
	case map[string]interface{}:
		return "object", nil
	}
	return "", unsupportedf("Go value of type %T inside a JSON value (decode with UseNumber)", v)
}

// castKind is the kind name used by the jsonb cast error messages.
func castKind(kind string) string {
	if kind == "number" {
		return "numeric"
	}
	return kind
}

// jsonText renders v the way jsonb_out does: ", " and ": " separators, object
// keys ordered by length then bytes, numbers in plain decimal notation.
func jsonText(v interface{}) (string, error) {
	var b bytes.Buffer
	if err := writeJSONText(&b, v); err != nil {
		return "", err
	}
	return b.String(), nil
}

func writeJSONText(b *bytes.Buffer, v interface{}) error {
	switch v := v.(type) {
	case nil:
		b.WriteString("null")
	case bool:
		if v {
			b.WriteString("true")
		} else {
			b.WriteString("false")
		}
	case json.Number:
		s, err := numericText(string(v))
		if err != nil {
			return err
		}
		b.WriteString(s)
	case string:
		writeJSONString(b, v)
	case []interface{}:
		b.WriteByte('[')
		for i, e := range v {
			if i > 0 {
				b.WriteString(", ")
			}
			if err := writeJSONText(b, e); err != nil {
				return err
			}
		}
		b.WriteByte(']')
	case map[string]interface{}:
		keys := make([]string, 0, len(v))
		for k := range v {
			keys = append(keys, k)
		}
		sort.Slice(keys, func(i, j int) bool {
			if len(keys[i]) != len(keys[j]) {
				return len(keys[i]) < len(keys[j])
			}
			return keys[i] < keys[j]
		})
		b.WriteByte('{')
		for i, k := range keys {
			if i > 0 {
				b.WriteString(", ")
			}
			writeJSONString(b, k)
			b.WriteString(": ")
			if err := writeJSONText(b, v[k]); err != nil {
				return err
			}
		}
		b.WriteByte('}')
	default:
		_, err := jsonKind(v)
		return err
	}
	return nil
}

// writeJSONString escapes like PostgreSQL's escape_json.
func writeJSONString(b *bytes.Buffer, s string) {
	b.WriteByte('"')
	for i := 0; i < len(s); i++ {
		c := s[i]
		switch c {
		case '"':
			b.WriteString(`\"`)
		case '\\':
			b.WriteString(`\\`)
		case '\b':
			b.WriteString(`\b`)
		case '\f':
			b.WriteString(`\f`)
		case '\n':
			b.WriteString(`\n`)
		case '\r':
			b.WriteString(`\r`)
		case '\t':
			b.WriteString(`\t`)
		default:
			if c < 0x20 {
				b.WriteString(`\u00`)
				b.WriteByte("0123456789abcdef"[c>>4])
				b.WriteByte("0123456789abcdef"[c&0xf])
			} else {
				b.WriteByte(c)
			}
		}
	}
	b.WriteByte('"')
}

// ---------------------------------------------------------------- decimals

// decimal is an exact decimal number: (-1)^neg * digits * 10^exp, digits
// without leading zeros ("" for zero). scale is the display scale PostgreSQL's
// numeric would keep (number of digits after the decimal point).
type decimal struct {
	neg    bool
	digits string
	exp    int
	scale  int
}

const maxDecimalExp = 100000

// parseDecimal parses [+-] digits [. digits] [e [+-] digits].
func parseDecimal(s string) (decimal, bool) {
	var d decimal
	i := 0
	if i < len(s) && (s[i] == '+' || s[i] == '-') {
		d.neg = s[i] == '-'
		i++
	}
	intStart := i
	for i < len(s) && isDigit(s[i]) {
		i++
	}
	intPart := s[intStart:i]
	frac := ""
	if i < len(s) && s[i] == '.' {
		i++
		fs := i
		for i < len(s) && isDigit(s[i]) {
			i++
		}
		frac = s[fs:i]
	}
	if intPart == "" && frac == "" {
		return d, false
	}
	e := 0
	if i < len(s) && (s[i] == 'e' || s[i] == 'E') {
		i++
		eneg := false
		if i < len(s) && (s[i] == '+' || s[i] == '-') {
			eneg = s[i] == '-'
			i++
		}
		es := i
		for i < len(s) && isDigit(s[i]) {
			i++
		}
		if es == i {
			return d, false
		}
		ed := strings.TrimLeft(s[es:i], "0")
		if len(ed) > 7 {
			e = 10 * maxDecimalExp // clamped: far beyond anything representable
		} else if ed != "" {
			e, _ = strconv.Atoi(ed)
		}
		if eneg {
			e = -e
		}
	}
	if i != len(s) {
		return d, false
	}
	d.digits = strings.TrimLeft(intPart+frac, "0")
	d.exp = e - len(frac)
	d.scale = len(frac) - e
	if d.scale < 0 {
		d.scale = 0
	}
	if d.digits == "" {
		d.neg = false
		d.exp = 0
	}
	return d, true
}

// numericText renders a JSON number the way PostgreSQL's numeric prints it.
func numericText(s string) (string, error) {
	d, ok := parseDecimal(s)
	if !ok {
		return "", unsupportedf("malformed JSON number %q", s)
	}
	if d.exp > maxDecimalExp || d.exp < -maxDecimalExp || d.scale > maxDecimalExp {
		return "", unsupportedf("JSON number %q has an exponent beyond the modelled range", s)
	}
	var b strings.Builder
	if d.neg {
		b.WriteByte('-')
	}
	n := len(d.digits)
	point := n + d.exp // digits before the decimal point
	switch {
	case n == 0 || point <= 0:
		b.WriteByte('0')
	case point >= n:
		b.WriteString(d.digits)
		b.WriteString(strings.Repeat("0", point-n))
	default:
		b.WriteString(d.digits[:point])
	}
	if d.scale > 0 {
		var frac string
		switch {
		case n == 0 || point >= n:
			frac = ""
		case point <= 0:
			frac = strings.Repeat("0", -point) + d.digits
		default:
			frac = d.digits[point:]
		}
		if len(frac) < d.scale {
			frac += strings.Repeat("0", d.scale-len(frac))
		}
		b.WriteByte('.')
		b.WriteString(frac[:d.scale])
	}
	return b.String(), nil
}

// roundToInt rounds d to the nearest integer, ties away from zero (the
// numeric -> integer rule). ok is false when |d| needs more than 63 bits.
func (d decimal) roundToInt() (v int64, ok bool) {
	n := len(d.digits)
	if n == 0 {
		return 0, true
	}
	point := n + d.exp
	if point > 19 {
		return 0, false
	}
	var mag uint64
	switch {
	case point < 0:
		mag = 0
	case point == 0:
		if d.digits[0] >= '5' {
			mag = 1
		}
	default:
		ip := d.digits
		if point >= n {
			ip += strings.Repeat("0", point-n)
		} else {
			ip = d.digits[:point]
		}
		u, err := strconv.ParseUint(ip, 10, 64)
		if err != nil {
			return 0, false
		}
		mag = u
		if point < n && d.digits[point] >= '5' {
			mag++
		}
	}
	if d.neg {
		switch {
		case mag > 1<<63:
			return 0, false
		case mag == 1<<63:
			return math.MinInt64, true
		}
		return -int64(mag), true
	}
	if mag > 1<<63-1 {
		return 0, false
	}
	return int64(mag), true
}

func boolToInt(b bool) int64 {
	if b {
		return 1
	}
	return 0
}

// cmpDecimal compares two exact decimals.
func cmpDecimal(a, b decimal) int {
	sign := func(d decimal) int {
		switch {
		case d.digits == "":
			return 0
		case d.neg:
			return -1
		}
		return 1
	}
	sa, sb := sign(a), sign(b)
	if sa != sb {
		if sa < sb {
			return -1
		}
		return 1
	}
	if sa == 0 {
		return 0
	}
	da, db := strings.TrimRight(a.digits, "0"), strings.TrimRight(b.digits, "0")
	pa, pb := len(a.digits)+a.exp, len(b.digits)+b.exp
	c := 0
	switch {
	case pa != pb:
		if pa < pb {
			c = -1
		} else {
			c = 1
		}
	default:
		c = strings.Compare(da, db)
	}
	return c * sa
}

// jsonEqual is jsonb equality: numbers compare by value, objects by key set.
func jsonEqual(a, b interface{}) (bool, error) {
	ka, err := jsonKind(a)
	if err != nil {
		return false, err
	}
	kb, err := jsonKind(b)
	if err != nil {
		return false, err
	}
	if ka != kb {
		return false, nil
	}
	switch x := a.(type) {
	case nil:
		return true, nil
	case bool:
		return x == b.(bool), nil
	case string:
		return x == b.(string), nil
	case json.Number:
		da, ok1 := parseDecimal(string(x))
		db, ok2 := parseDecimal(string(b.(json.Number)))
		if !ok1 || !ok2 {
			return false, unsupportedf("malformed JSON number")
		}
		return cmpDecimal(da, db) == 0, nil
	case []interface{}:
		y := b.([]interface{})
		if len(x) != len(y) {
			return false, nil
		}
		for i := range x {
			eq, err := jsonEqual(x[i], y[i])
			if err != nil || !eq {
				return false, err
			}
		}
		return true, nil
	case map[string]interface{}:
		y := b.(map[string]interface{})
		if len(x) != len(y) {
			return false, nil
		}
		keys := make([]string, 0, len(x))
		for k := range x {
			keys = append(keys, k)
		}
		sort.Strings(keys)
		for _, k := range keys {
			yv, ok := y[k]
			if !ok {
				return false, nil
			}
			eq, err := jsonEqual(x[k], yv)
			if err != nil || !eq {
				return false, err
			}
		}
		return true, nil
	}
	return false, nil
}
