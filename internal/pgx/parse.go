package pgx

import (
	"strconv"
	"strings"
)

// maxDepth bounds the nesting of expressions and statements so that hostile
// input cannot exhaust the Go stack.
const maxDepth = 500

type parser struct {
	src   string
	toks  []token
	i     int
	depth int
	eof   token
}

func newParser(src string, toks []token, endPos int) *parser {
	return &parser{src: src, toks: toks, eof: token{kind: tEOF, pos: endPos, end: endPos}}
}

func (p *parser) peek() token {
	if p.i < len(p.toks) {
		return p.toks[p.i]
	}
	return p.eof
}

func (p *parser) peekAt(n int) token {
	if p.i+n < len(p.toks) {
		return p.toks[p.i+n]
	}
	return p.eof
}

func (p *parser) next() token {
	t := p.peek()
	if p.i < len(p.toks) {
		p.i++
	}
	return t
}

func (p *parser) atEOF() bool { return p.i >= len(p.toks) }

func (t token) isKw(kw string) bool { return t.kind == tIdent && t.up == kw }
func (t token) isOp(op string) bool { return t.kind == tOp && t.text == op }

func (p *parser) isKw(kw string) bool { return p.peek().isKw(kw) }
func (p *parser) isOp(op string) bool { return p.peek().isOp(op) }

func (p *parser) acceptKw(kw string) bool {
	if p.isKw(kw) {
		p.next()
		return true
	}
	return false
}

func (p *parser) acceptOp(op string) bool {
	if p.isOp(op) {
		p.next()
		return true
	}
	return false
}

func (t token) describe() string {
	if t.kind == tEOF {
		return "end of input"
	}
	s := t.text
	if len(s) > 30 {
		s = s[:30] + "..."
	}
	return strconv.Quote(s)
}

func (p *parser) syntaxErr(t token, format string, args ...interface{}) error {
	return syntaxAt(p.src, t.pos, format, args...)
}

func (p *parser) unsupported(t token, format string, args ...interface{}) error {
	return unsupportedAt(p.src, t.pos, format, args...)
}

// keywordOperators are keywords that continue an expression in PostgreSQL.
// Meeting one where the modelled grammar cannot continue means "valid SQL
// outside the subset", not a syntax error.
var keywordOperators = map[string]bool{
	"LIKE": true, "ILIKE": true, "BETWEEN": true, "SIMILAR": true, "OVERLAPS": true,
	"COLLATE": true, "AT": true, "ISNULL": true, "NOTNULL": true, "OPERATOR": true,
	"IN": true, "IS": true, "NOT": true, "AND": true, "OR": true,
}

// unexpected classifies the current token, found where `want` was expected
// after a complete construct.
func (p *parser) unexpected(want string) error {
	t := p.peek()
	switch t.kind {
	case tOp:
		switch t.text {
		case ")", ",", ";", "]", ":=", "(":
			return p.syntaxErr(t, "expected %s, found %s", want, t.describe())
		}
		return p.unsupported(t, "operator %s is not modelled (expected %s)", t.describe(), want)
	case tBody, tParam, tQIdent, tXString:
		return p.unsupported(t, "%s is not modelled (expected %s)", t.describe(), want)
	case tIdent:
		if keywordOperators[t.up] {
			return p.unsupported(t, "%s is not modelled here (expected %s)", t.up, want)
		}
	}
	return p.syntaxErr(t, "expected %s, found %s", want, t.describe())
}

func (p *parser) expectOp(op string) error {
	if p.acceptOp(op) {
		return nil
	}
	return p.unexpected(strconv.Quote(op))
}

func (p *parser) expectKw(kw string) error {
	if p.acceptKw(kw) {
		return nil
	}
	return p.unexpected(kw)
}

// ---------------------------------------------------------------- expressions

// ParseExpr parses a stand-alone expression.
func ParseExpr(src string) (Expr, error) {
	toks, _, err := lexRange(src, 0, len(src))
	if err != nil {
		return nil, err
	}
	if err := checkBalance(src, toks); err != nil {
		return nil, err
	}
	p := newParser(src, toks, len(src))
	e, err := p.parseExpr()
	if err != nil {
		return nil, err
	}
	if !p.atEOF() {
		return nil, p.unexpected("end of expression")
	}
	return e, nil
}

func (p *parser) enter() error {
	p.depth++
	if p.depth > maxDepth {
		return p.unsupported(p.peek(), "nesting deeper than %d levels", maxDepth)
	}
	return nil
}

func (p *parser) leave() { p.depth-- }

func (p *parser) parseExpr() (Expr, error) {
	if err := p.enter(); err != nil {
		return nil, err
	}
	defer p.leave()
	return p.parseOr()
}

func (p *parser) parseOr() (Expr, error) {
	l, err := p.parseAnd()
	if err != nil {
		return nil, err
	}
	for p.isKw("OR") {
		p.next()
		r, err := p.parseAnd()
		if err != nil {
			return nil, err
		}
		l = &BinOp{Op: "OR", L: l, R: r}
	}
	return l, nil
}

func (p *parser) parseAnd() (Expr, error) {
	l, err := p.parseNot()
	if err != nil {
		return nil, err
	}
	for p.isKw("AND") {
		p.next()
		r, err := p.parseNot()
		if err != nil {
			return nil, err
		}
		l = &BinOp{Op: "AND", L: l, R: r}
	}
	return l, nil
}

func (p *parser) parseNot() (Expr, error) {
	if p.isKw("NOT") {
		if err := p.enter(); err != nil {
			return nil, err
		}
		defer p.leave()
		p.next()
		x, err := p.parseNot()
		if err != nil {
			return nil, err
		}
		return &Not{X: x}, nil
	}
	return p.parseIs()
}

// parseIs: cmp { IS [NOT] NULL }   (IS binds looser than comparisons)
func (p *parser) parseIs() (Expr, error) {
	l, err := p.parseCmp()
	if err != nil {
		return nil, err
	}
	for p.isKw("IS") {
		is := p.next()
		not := p.acceptKw("NOT")
		t := p.peek()
		switch {
		case t.isKw("NULL"):
			p.next()
			l = &IsNull{X: l, Not: not}
		case t.isKw("TRUE"), t.isKw("FALSE"), t.isKw("UNKNOWN"), t.isKw("DISTINCT"),
			t.isKw("DOCUMENT"), t.isKw("NORMALIZED"), t.isKw("JSON"), t.isKw("OF"),
			t.isKw("NFC"), t.isKw("NFD"), t.isKw("NFKC"), t.isKw("NFKD"):
			return nil, p.unsupported(is, "IS %s is not modelled", t.up)
		default:
			return nil, p.syntaxErr(t, "expected NULL after IS, found %s", t.describe())
		}
	}
	if t := p.peek(); t.isKw("ISNULL") || t.isKw("NOTNULL") {
		return nil, p.unsupported(t, "%s is not modelled", t.up)
	}
	return l, nil
}

var cmpOps = map[string]bool{"=": true, "!=": true, "<>": true, "<": true, ">": true, "<=": true, ">=": true}

// parseCmp: in [ cmpop in ]   (comparison operators do not associate)
func (p *parser) parseCmp() (Expr, error) {
	l, err := p.parseIn()
	if err != nil {
		return nil, err
	}
	if t := p.peek(); t.kind == tOp && cmpOps[t.text] {
		p.next()
		if q := p.peek(); q.isKw("ANY") || q.isKw("ALL") || q.isKw("SOME") {
			return nil, p.unsupported(q, "%s (...) is not modelled", q.up)
		}
		r, err := p.parseIn()
		if err != nil {
			return nil, err
		}
		l = &BinOp{Op: t.text, L: l, R: r}
		if t2 := p.peek(); t2.kind == tOp && cmpOps[t2.text] {
			return nil, p.unsupported(t2, "chained comparison is not modelled")
		}
	}
	return l, nil
}

// parseIn: add [ [NOT] IN ( expr {, expr} ) ]
func (p *parser) parseIn() (Expr, error) {
	l, err := p.parseAdd()
	if err != nil {
		return nil, err
	}
	t := p.peek()
	not := false
	if t.isKw("NOT") {
		n := p.peekAt(1)
		switch {
		case n.isKw("IN"):
			p.next()
			not = true
			t = p.peek()
		case n.isKw("LIKE"), n.isKw("ILIKE"), n.isKw("BETWEEN"), n.isKw("SIMILAR"):
			return nil, p.unsupported(t, "NOT %s is not modelled", n.up)
		default:
			return l, nil // the caller reports it
		}
	}
	if t.isKw("IN") {
		p.next()
		if !p.isOp("(") {
			return nil, p.syntaxErr(p.peek(), "expected \"(\" after IN, found %s", p.peek().describe())
		}
		p.next()
		if q := p.peek(); q.isKw("SELECT") || q.isKw("VALUES") || q.isKw("WITH") || q.isKw("TABLE") {
			return nil, p.unsupported(q, "IN (sub-query) is not modelled")
		}
		var list []Expr
		for {
			e, err := p.parseExpr()
			if err != nil {
				return nil, err
			}
			list = append(list, e)
			if p.acceptOp(",") {
				continue
			}
			if p.acceptOp(")") {
				break
			}
			return nil, p.unexpected("\",\" or \")\" in IN list")
		}
		in := &In{X: l, List: list, Not: not}
		if q := p.peek(); q.isKw("IN") || (q.isKw("NOT") && p.peekAt(1).isKw("IN")) {
			return nil, p.unsupported(q, "chained IN is not modelled")
		}
		return in, nil
	}
	if t.isKw("BETWEEN") {
		// a BETWEEN x AND y  ==  a >= x AND a <= y (same three-valued result; the operand is evaluated twice,
		// which is unobservable for the side-effect-free expressions of the subset)
		p.next()
		if q := p.peek(); q.isKw("SYMMETRIC") || q.isKw("ASYMMETRIC") {
			return nil, p.unsupported(q, "BETWEEN %s is not modelled", q.up)
		}
		lo, err := p.parseAdd()
		if err != nil {
			return nil, err
		}
		if !p.acceptKw("AND") {
			return nil, p.unexpected("AND after the lower bound of BETWEEN")
		}
		hi, err := p.parseAdd()
		if err != nil {
			return nil, err
		}
		return &BinOp{Op: "AND", L: &BinOp{Op: ">=", L: l, R: lo}, R: &BinOp{Op: "<=", L: l, R: hi}}, nil
	}
	if t.kind == tIdent && keywordOperators[t.up] && t.up != "IS" && t.up != "AND" && t.up != "OR" && t.up != "NOT" &&
		t.up != "ISNULL" && t.up != "NOTNULL" {
		return nil, p.unsupported(t, "%s is not modelled", t.up)
	}
	return l, nil
}

// parseAdd: unary { (-> | ->> | #>> | ||) unary }
// All "other" operators share one precedence level in PostgreSQL and
// associate to the left.
func (p *parser) parseAdd() (Expr, error) {
	l, err := p.parseUnary()
	if err != nil {
		return nil, err
	}
	for {
		t := p.peek()
		if t.kind != tOp {
			return l, nil
		}
		switch t.text {
		case "->", "->>", "#>>", "||":
			p.next()
			r, err := p.parseUnary()
			if err != nil {
				return nil, err
			}
			l = &BinOp{Op: t.text, L: l, R: r}
		case ")", ",", ";", "]", ":=", "(":
			return l, nil
		default:
			if cmpOps[t.text] {
				return l, nil
			}
			return nil, p.unsupported(t, "operator %s is not modelled", t.describe())
		}
	}
}

// parseUnary: '-' unary | postfix
func (p *parser) parseUnary() (Expr, error) {
	if t := p.peek(); t.isOp("-") {
		if err := p.enter(); err != nil {
			return nil, err
		}
		defer p.leave()
		p.next()
		x, err := p.parseUnary()
		if err != nil {
			return nil, err
		}
		if l, ok := x.(*Lit); ok && !strings.HasPrefix(l.Raw, "-") {
			switch v := l.Val.(type) {
			case int64:
				return &Lit{Val: -v, Raw: "-" + l.Raw}, nil
			case float64:
				return &Lit{Val: -v, Raw: "-" + l.Raw}, nil
			}
		}
		return &Neg{X: x}, nil
	} else if t.isOp("+") {
		return nil, p.unsupported(t, "unary + is not modelled")
	}
	return p.parsePostfix()
}

// parsePostfix: primary { '::' type }
func (p *parser) parsePostfix() (Expr, error) {
	x, err := p.parsePrimary()
	if err != nil {
		return nil, err
	}
	for p.isOp("::") {
		p.next()
		ty, err := p.parseType()
		if err != nil {
			return nil, err
		}
		x = &Cast{X: x, Type: ty}
	}
	return x, nil
}

// operandStoppers are reserved words that can neither be nor start an operand.
var operandStoppers = map[string]bool{
	"AND": true, "OR": true, "IN": true, "IS": true, "THEN": true, "ELSE": true,
	"ELSIF": true, "ELSEIF": true, "END": true, "WHEN": true, "FROM": true, "WHERE": true,
	"AS": true, "ON": true, "LIKE": true, "ILIKE": true, "BETWEEN": true, "SIMILAR": true,
	"COLLATE": true, "ISNULL": true, "NOTNULL": true, "INTO": true, "USING": true,
	"GROUP": true, "HAVING": true, "LIMIT": true, "UNION": true,
	"DO": true, "LOOP": true, "BEGIN": true, "DECLARE": true,
}

// unsupportedOperands are keywords that start valid expressions outside the subset.
var unsupportedOperands = map[string]bool{
	"CASE": true, "EXISTS": true, "ARRAY": true, "ROW": true, "CAST": true, "NOT": true,
	"ANY": true, "ALL": true, "SOME": true, "SELECT": true, "VALUES": true, "WITH": true, "TABLE": true,
	"INTERVAL": true, "CURRENT_DATE": true, "CURRENT_TIME": true, "CURRENT_TIMESTAMP": true,
	"CURRENT_USER": true, "LOCALTIME": true, "LOCALTIMESTAMP": true, "SESSION_USER": true,
	"DEFAULT": true, "DISTINCT": true, "VARIADIC": true, "EXTRACT": true, "POSITION": true, "SUBSTRING": true,
	"TRIM": true, "OVERLAY": true, "TREAT": true, "XMLELEMENT": true, "GROUPING": true,
}

func (p *parser) parsePrimary() (Expr, error) {
	t := p.peek()
	switch t.kind {
	case tEOF:
		return nil, p.syntaxErr(t, "expected expression, found end of input")

	case tNumber:
		p.next()
		return numberLit(t.text), nil

	case tString:
		p.next()
		if n := p.peek(); n.kind == tString {
			if n.nlBefore {
				return nil, p.unsupported(n, "string continuation across lines is not modelled")
			}
			return nil, p.syntaxErr(n, "unexpected string constant %s after string constant", n.describe())
		}
		return &Lit{Val: t.val}, nil

	case tXString, tBody, tParam, tQIdent:
		return nil, p.unsupported(t, "%s is not modelled", t.describe())

	case tOp:
		switch t.text {
		case "(":
			return p.parseParen()
		case ")", ",", ";", "]", ":=", "::", ".", "[":
			return nil, p.syntaxErr(t, "expected expression, found %s", t.describe())
		}
		if cmpOps[t.text] || t.text == "->" || t.text == "->>" || t.text == "#>>" || t.text == "||" {
			return nil, p.syntaxErr(t, "expected expression, found operator %s", t.describe())
		}
		return nil, p.unsupported(t, "prefix operator %s is not modelled", t.describe())

	case tIdent:
		switch t.up {
		case "TRUE":
			p.next()
			return &Lit{Val: true}, nil
		case "FALSE":
			p.next()
			return &Lit{Val: false}, nil
		case "NULL":
			p.next()
			return &Lit{Val: nil}, nil
		}
		if unsupportedOperands[t.up] {
			return nil, p.unsupported(t, "%s expression is not modelled", t.up)
		}
		if operandStoppers[t.up] {
			return nil, p.syntaxErr(t, "expected expression, found %s", t.up)
		}
		p.next()
		n := p.peek()
		switch {
		case n.isOp("("):
			return p.parseCall(t)
		case n.isOp("."):
			return nil, p.unsupported(n, "qualified name %s.… is not modelled", t.text)
		case n.isOp("["):
			return nil, p.unsupported(n, "subscript is not modelled")
		case n.kind == tString || n.kind == tXString:
			return nil, p.unsupported(t, "typed literal %s '…' is not modelled", t.text)
		}
		return &Ident{Name: t.text}, nil
	}
	return nil, p.syntaxErr(t, "expected expression, found %s", t.describe())
}

func numberLit(text string) *Lit {
	if !strings.ContainsAny(text, ".eE") {
		if v, err := strconv.ParseInt(text, 10, 64); err == nil {
			return &Lit{Val: v, Raw: text}
		}
	}
	f, _ := strconv.ParseFloat(text, 64) // numeric literal; ±Inf on overflow is kept as is
	return &Lit{Val: f, Raw: text}
}

// parseCall parses name '(' [ expr { ',' expr } ] ')'; the name token has been
// consumed, the current token is '('.
func (p *parser) parseCall(name token) (Expr, error) {
	p.next() // (
	call := &Call{Func: name.text}
	if !p.acceptOp(")") {
		if t := p.peek(); t.isOp("*") || t.isKw("DISTINCT") || t.isKw("ALL") || t.isKw("VARIADIC") {
			return nil, p.unsupported(t, "%s in a call is not modelled", t.describe())
		}
		for {
			e, err := p.parseExpr()
			if err != nil {
				return nil, err
			}
			call.Args = append(call.Args, e)
			if p.acceptOp(",") {
				continue
			}
			if p.acceptOp(")") {
				break
			}
			if t := p.peek(); t.isKw("ORDER") || t.isKw("FROM") || t.isKw("FOR") || t.isKw("AS") || t.isOp("=>") || t.isKw("USING") {
				return nil, p.unsupported(t, "special call syntax (%s) is not modelled", t.describe())
			}
			return nil, p.unexpected("\",\" or \")\" in argument list")
		}
	}
	if t := p.peek(); t.isKw("OVER") || t.isKw("FILTER") || t.isKw("WITHIN") {
		return nil, p.unsupported(t, "%s (window / aggregate clause) is not modelled", t.up)
	}
	if t := p.peek(); t.isOp(".") || t.isOp("[") {
		return nil, p.unsupported(t, "%s after a call is not modelled", t.describe())
	}
	return call, nil
}

var modelledAggregates = map[string]bool{"bool_and": true}
var modelledSetFuncs = map[string]bool{"jsonb_each": true, "jsonb_array_elements": true}

// parseParen parses '(' expr ')' or the scalar aggregate sub-select.
func (p *parser) parseParen() (Expr, error) {
	if err := p.enter(); err != nil {
		return nil, err
	}
	defer p.leave()
	open := p.next() // (
	if t := p.peek(); t.isKw("VALUES") || t.isKw("WITH") || t.isKw("TABLE") {
		return nil, p.unsupported(t, "sub-query is not modelled")
	}
	if p.isKw("SELECT") {
		sel := p.next()
		// SELECT agg ( expr ) FROM fn ( expr ) )
		agg := p.peek()
		if agg.kind != tIdent || !p.peekAt(1).isOp("(") {
			return nil, p.unsupported(sel, "only (SELECT agg(expr) FROM func(expr)) sub-selects are modelled")
		}
		if !modelledAggregates[strings.ToLower(agg.text)] {
			return nil, p.unsupported(agg, "aggregate %s is not modelled", agg.text)
		}
		p.next()
		p.next()
		arg, err := p.parseExpr()
		if err != nil {
			return nil, err
		}
		if !p.acceptOp(")") {
			if p.isOp(",") {
				return nil, p.unsupported(p.peek(), "aggregate with several arguments is not modelled")
			}
			return nil, p.unexpected("\")\" after the aggregate argument")
		}
		if !p.acceptKw("FROM") {
			if t := p.peek(); t.isOp(")") || t.isOp(",") || t.isKw("AS") || t.isKw("OVER") || t.isKw("FILTER") ||
				t.isKw("WHERE") || t.isKw("INTO") || t.kind == tIdent {
				return nil, p.unsupported(t, "only (SELECT agg(expr) FROM func(expr)) sub-selects are modelled")
			}
			return nil, p.unexpected("FROM")
		}
		fn := p.peek()
		if fn.kind != tIdent || !p.peekAt(1).isOp("(") {
			return nil, p.unsupported(fn, "only FROM func(expr) is modelled in sub-selects")
		}
		if !modelledSetFuncs[strings.ToLower(fn.text)] {
			return nil, p.unsupported(fn, "set-returning function %s is not modelled", fn.text)
		}
		p.next()
		p.next()
		fromArg, err := p.parseExpr()
		if err != nil {
			return nil, err
		}
		if !p.acceptOp(")") {
			return nil, p.unexpected("\")\" after the FROM function argument")
		}
		if !p.acceptOp(")") {
			t := p.peek()
			if t.kind == tIdent || t.isOp(",") {
				return nil, p.unsupported(t, "sub-select clause %s is not modelled", t.describe())
			}
			return nil, p.unexpected("\")\" closing the sub-select")
		}
		return &SubSelect{Agg: strings.ToLower(agg.text), Arg: arg, From: strings.ToLower(fn.text), FromArg: fromArg}, nil
	}
	if p.isOp(")") {
		return nil, p.syntaxErr(p.peek(), "empty parentheses")
	}
	e, err := p.parseExpr()
	if err != nil {
		return nil, err
	}
	if !p.acceptOp(")") {
		if p.isOp(",") {
			return nil, p.unsupported(open, "row constructor (a, b) is not modelled")
		}
		return nil, p.unexpected("\")\"")
	}
	if t := p.peek(); t.isOp(".") || t.isOp("[") {
		return nil, p.unsupported(t, "%s after a parenthesised expression is not modelled", t.describe())
	}
	return e, nil
}

// ---------------------------------------------------------------- type names

// builtinTypeWords are first words of built-in type names; such names are
// normalised to lower case, any other (composite) name is kept as written.
var builtinTypeWords = map[string]bool{
	"integer": true, "int": true, "int2": true, "int4": true, "int8": true, "smallint": true,
	"bigint": true, "serial": true, "bigserial": true, "smallserial": true, "serial2": true,
	"serial4": true, "serial8": true, "boolean": true, "bool": true, "real": true,
	"double": true, "float": true, "float4": true, "float8": true, "numeric": true,
	"decimal": true, "text": true, "varchar": true, "char": true, "character": true,
	"bpchar": true, "jsonb": true, "json": true, "bytea": true, "date": true,
	"timestamp": true, "timestamptz": true, "time": true, "timetz": true, "interval": true,
	"uuid": true, "money": true, "bit": true, "varbit": true, "oid": true, "name": true,
	"xml": true, "inet": true, "cidr": true, "macaddr": true,
}

var typesWithModifier = map[string]bool{
	"varchar": true, "char": true, "character": true, "bpchar": true, "numeric": true,
	"decimal": true, "timestamp": true, "timestamptz": true, "time": true, "timetz": true,
	"bit": true, "varbit": true, "interval": true, "float": true,
}

// parseType parses a type name and returns it normalised: lower case and
// single spaces for built-in types ("timestamp (0) with time zone",
// "integer[]"), the name as written for any other (composite) type.
func (p *parser) parseType() (string, error) {
	t := p.peek()
	switch t.kind {
	case tIdent:
	case tQIdent:
		return "", p.unsupported(t, "quoted type name is not modelled")
	default:
		return "", p.syntaxErr(t, "expected a type name, found %s", t.describe())
	}
	if t.up == "SETOF" || t.up == "TABLE" {
		return "", p.unsupported(t, "%s types are not modelled", t.up)
	}
	if operandStoppers[t.up] || t.up == "NOT" || t.up == "NULL" || t.up == "CHECK" || t.up == "PRIMARY" ||
		t.up == "DEFAULT" || t.up == "REFERENCES" || t.up == "UNIQUE" || t.up == "CONSTRAINT" {
		return "", p.syntaxErr(t, "expected a type name, found %s", t.up)
	}
	p.next()
	first := strings.ToLower(t.text)
	var words []string
	if builtinTypeWords[first] {
		words = append(words, first)
	} else {
		words = append(words, t.text)
		if p.isOp(".") {
			return "", p.unsupported(p.peek(), "schema-qualified type name is not modelled")
		}
		if p.isOp("%") {
			return "", p.unsupported(p.peek(), "%%TYPE is not modelled")
		}
	}
	switch first {
	case "double":
		if p.acceptKw("PRECISION") {
			words = append(words, "precision")
		}
	case "character", "char", "bit":
		if p.acceptKw("VARYING") {
			words = append(words, "varying")
		}
	}
	if typesWithModifier[first] && p.isOp("(") {
		p.next()
		var mods []string
		for {
			n := p.peek()
			if n.kind != tNumber {
				return "", p.syntaxErr(n, "expected a number in the type modifier, found %s", n.describe())
			}
			p.next()
			mods = append(mods, n.text)
			if p.acceptOp(",") {
				continue
			}
			if p.acceptOp(")") {
				break
			}
			return "", p.syntaxErr(p.peek(), "expected \",\" or \")\" in the type modifier, found %s", p.peek().describe())
		}
		words = append(words, "("+strings.Join(mods, ", ")+")")
	}
	if first == "timestamp" || first == "time" {
		if w := p.peek(); w.isKw("WITH") || w.isKw("WITHOUT") {
			p.next()
			if err := p.expectKw("TIME"); err != nil {
				return "", err
			}
			if err := p.expectKw("ZONE"); err != nil {
				return "", err
			}
			words = append(words, strings.ToLower(w.text), "time", "zone")
		}
	}
	name := strings.Join(words, " ")
	for p.isOp("[") {
		p.next()
		if p.peek().kind == tNumber {
			p.next()
		}
		if !p.acceptOp("]") {
			return "", p.syntaxErr(p.peek(), "expected \"]\" in array type, found %s", p.peek().describe())
		}
		name += "[]"
	}
	if p.isKw("ARRAY") {
		return "", p.unsupported(p.peek(), "ARRAY type suffix is not modelled")
	}
	return name, nil
}
