package pgx

import (
	"encoding/json"
	"math"
	"math/big"
	"sort"
	"strconv"
	"strings"
)

// Value is an SQL value: nil (SQL NULL), bool, int64 (integer types),
// float64 (numeric / decimal), string (text), JSON (jsonb), Array (SQL array).
type Value interface{}

// Array is an SQL array.
type Array []Value

// MaxCallDepth bounds the depth of nested PL/pgSQL calls; beyond it the
// evaluator raises "stack depth limit exceeded" like PostgreSQL does.
const MaxCallDepth = 10000

type evalCtx struct {
	s     *Script
	depth int
}

// scope resolves identifiers: sub-select rows first (innermost last in the
// slice), then variables (the env of Eval, or parameters and DECLAREd
// variables of a PL/pgSQL function).
type scope struct {
	vars    map[string]Value
	plpgsql bool
	rows    []map[string]Value
}

func (sc *scope) lookup(name string) (Value, error) {
	key := Fold(name)
	for i := len(sc.rows) - 1; i >= 0; i-- {
		if v, ok := sc.rows[i][key]; ok {
			if _, both := sc.vars[key]; both && sc.plpgsql {
				return nil, raisef("column reference %q is ambiguous (it could refer to either a PL/pgSQL variable or a table column)", name)
			}
			return v, nil
		}
	}
	if v, ok := sc.vars[key]; ok {
		return v, nil
	}
	return nil, &UndefinedColumn{Name: name}
}

func checkValue(v Value) error {
	switch v := v.(type) {
	case nil, bool, int64, float64, string:
		return nil
	case JSON:
		return checkJSON(v.V)
	case Array:
		for _, e := range v {
			if err := checkValue(e); err != nil {
				return err
			}
		}
		return nil
	}
	return unsupportedf("Go value of type %T is not a pgx.Value", v)
}

func checkJSON(v interface{}) error {
	switch v := v.(type) {
	case []interface{}:
		for _, e := range v {
			if err := checkJSON(e); err != nil {
				return err
			}
		}
		return nil
	case map[string]interface{}:
		for _, e := range v {
			if err := checkJSON(e); err != nil {
				return err
			}
		}
		return nil
	case json.Number:
		if _, ok := parseDecimal(string(v)); !ok {
			return unsupportedf("malformed json.Number %q", string(v))
		}
		return nil
	}
	_, err := jsonKind(v)
	return err
}

// Eval evaluates e; identifiers are resolved in env by lower-cased name.
func (s *Script) Eval(e Expr, env map[string]Value) (Value, error) {
	if e == nil {
		return nil, unsupportedf("nil expression")
	}
	vars := make(map[string]Value, len(env))
	keys := make([]string, 0, len(env))
	for k := range env {
		keys = append(keys, k)
	}
	sort.Strings(keys)
	for _, k := range keys {
		if err := checkValue(env[k]); err != nil {
			return nil, err
		}
		f := Fold(k)
		if _, dup := vars[f]; dup {
			return nil, unsupportedf("env binds %q twice (names are case-insensitive)", f)
		}
		vars[f] = env[k]
	}
	c := &evalCtx{s: s}
	return c.eval(&scope{vars: vars}, e)
}

// CheckPasses evaluates a CHECK expression: the constraint passes iff the
// result is true or NULL (isNull tells which), fails iff it is false.
func (s *Script) CheckPasses(e Expr, env map[string]Value) (passes bool, isNull bool, err error) {
	v, err := s.Eval(e, env)
	if err != nil {
		return false, false, err
	}
	switch v := v.(type) {
	case nil:
		return true, true, nil
	case bool:
		return v, false, nil
	}
	return false, false, raisef("argument of CHECK must be type boolean, not type %s", typeName(v))
}

// Call interprets the PL/pgSQL function fn of the script.
func (s *Script) Call(fn string, args ...Value) (Value, error) {
	var f *Function
	ok := false
	if s != nil {
		f, ok = s.Functions[Fold(fn)]
	}
	if !ok {
		return nil, &UndefinedFunction{Name: Fold(fn), NArgs: len(args)}
	}
	for _, a := range args {
		if err := checkValue(a); err != nil {
			return nil, err
		}
	}
	c := &evalCtx{s: s}
	return c.callUser(f, args, nil)
}

func typeName(v Value) string {
	switch v.(type) {
	case nil:
		return "unknown"
	case bool:
		return "boolean"
	case int64:
		return "integer"
	case float64:
		return "numeric"
	case string:
		return "text"
	case JSON:
		return "jsonb"
	case Array:
		return "anyarray"
	}
	return "?"
}

// isStringLit reports whether e is a bare string constant, whose SQL type is
// "unknown": PostgreSQL converts it to the type the context asks for.
func isStringLit(e Expr) bool {
	l, ok := e.(*Lit)
	if !ok {
		return false
	}
	_, ok = l.Val.(string)
	return ok
}

func parseBoolText(s string) (bool, bool) {
	switch strings.ToLower(strings.TrimSpace(s)) {
	case "t", "true", "y", "yes", "on", "1", "tr", "tru", "ye":
		return true, true
	case "f", "false", "n", "no", "off", "0", "fa", "fal", "fals", "of":
		return false, true
	}
	return false, false
}

func parseIntText(s string) (int64, bool) {
	v, err := strconv.ParseInt(strings.TrimSpace(s), 10, 64)
	return v, err == nil
}

// coerceUnknown converts the string constant s to the type of other.
func coerceUnknown(s string, other Value) (Value, error) {
	switch other.(type) {
	case bool:
		b, ok := parseBoolText(s)
		if !ok {
			return nil, raisef("invalid input syntax for type boolean: %q", s)
		}
		return b, nil
	case int64:
		v, ok := parseIntText(s)
		if !ok {
			return nil, raisef("invalid input syntax for type integer: %q", s)
		}
		return v, nil
	case float64:
		_, ok := parseDecimal(strings.TrimSpace(s))
		f, err := strconv.ParseFloat(strings.TrimSpace(s), 64)
		if !ok || err != nil {
			return nil, raisef("invalid input syntax for type numeric: %q", s)
		}
		return f, nil
	case JSON:
		j, err := ParseJSON(s)
		if err != nil {
			return nil, raisef("invalid input syntax for type json: %q", s)
		}
		return j, nil
	case Array:
		return nil, unsupportedf("array constants are not modelled")
	}
	return s, nil
}

// asBool reads a boolean operand of NOT / AND / OR / IF / WHEN.
func asBool(v Value, e Expr, what string) (val, null bool, err error) {
	switch x := v.(type) {
	case nil:
		return false, true, nil
	case bool:
		return x, false, nil
	case string:
		if isStringLit(e) {
			b, ok := parseBoolText(x)
			if !ok {
				return false, false, raisef("invalid input syntax for type boolean: %q", x)
			}
			return b, false, nil
		}
	}
	return false, false, raisef("argument of %s must be type boolean, not type %s", what, typeName(v))
}

// asJSON reads a jsonb operand.
func asJSON(v Value, e Expr, what string) (j JSON, null bool, err error) {
	switch x := v.(type) {
	case nil:
		return JSON{}, true, nil
	case JSON:
		return x, false, nil
	case string:
		if isStringLit(e) {
			j, err := ParseJSON(x)
			if err != nil {
				return JSON{}, false, raisef("invalid input syntax for type json: %q", x)
			}
			return j, false, nil
		}
	}
	return JSON{}, false, raisef("%s does not exist for type %s (jsonb expected)", what, typeName(v))
}

func (c *evalCtx) eval(sc *scope, e Expr) (Value, error) {
	switch e := e.(type) {
	case *Lit:
		return e.Val, nil

	case *Ident:
		return sc.lookup(e.Name)

	case *Not:
		v, err := c.eval(sc, e.X)
		if err != nil {
			return nil, err
		}
		b, null, err := asBool(v, e.X, "NOT")
		if err != nil {
			return nil, err
		}
		if null {
			return nil, nil
		}
		return !b, nil

	case *Neg:
		v, err := c.eval(sc, e.X)
		if err != nil {
			return nil, err
		}
		switch x := v.(type) {
		case nil:
			return nil, nil
		case int64:
			if x == math.MinInt64 {
				return nil, raisef("integer out of range")
			}
			return -x, nil
		case float64:
			return -x, nil
		}
		return nil, raisef("operator does not exist: - %s", typeName(v))

	case *IsNull:
		v, err := c.eval(sc, e.X)
		if err != nil {
			return nil, err
		}
		return (v == nil) != e.Not, nil

	case *BinOp:
		return c.evalBinOp(sc, e)

	case *In:
		return c.evalIn(sc, e)

	case *Cast:
		v, err := c.eval(sc, e.X)
		if err != nil {
			return nil, err
		}
		return castValue(v, e.Type)

	case *Call:
		return c.evalCall(sc, e)

	case *SubSelect:
		return c.evalSubSelect(sc, e)
	}
	return nil, unsupportedf("expression node %T", e)
}

func (c *evalCtx) evalBinOp(sc *scope, e *BinOp) (Value, error) {
	switch e.Op {
	case "AND", "OR":
		// Kleene logic; modelling assumption: left to right, short-circuit.
		isAnd := e.Op == "AND"
		lv, err := c.eval(sc, e.L)
		if err != nil {
			return nil, err
		}
		lb, lnull, err := asBool(lv, e.L, e.Op)
		if err != nil {
			return nil, err
		}
		if !lnull && lb != isAnd {
			return lb, nil // false AND _, true OR _
		}
		rv, err := c.eval(sc, e.R)
		if err != nil {
			return nil, err
		}
		rb, rnull, err := asBool(rv, e.R, e.Op)
		if err != nil {
			return nil, err
		}
		if !rnull && rb != isAnd {
			return rb, nil
		}
		if lnull || rnull {
			return nil, nil
		}
		return isAnd, nil
	}

	lv, err := c.eval(sc, e.L)
	if err != nil {
		return nil, err
	}
	rv, err := c.eval(sc, e.R)
	if err != nil {
		return nil, err
	}
	switch e.Op {
	case "=", "!=", "<>", "<", ">", "<=", ">=":
		return compareValues(e.Op, lv, rv, e.L, e.R)
	case "->", "->>":
		return jsonArrow(e.Op, lv, rv, e.L)
	case "#>>":
		return jsonPathText(lv, rv, e.L, e.R)
	case "||":
		if lv == nil || rv == nil {
			if (lv == nil || isText(lv)) && (rv == nil || isText(rv)) {
				return nil, nil
			}
			return nil, unsupportedf("operator || on %s and %s", typeName(lv), typeName(rv))
		}
		ls, lok := lv.(string)
		rs, rok := rv.(string)
		if lok && rok {
			return ls + rs, nil
		}
		return nil, unsupportedf("operator || on %s and %s", typeName(lv), typeName(rv))
	}
	return nil, unsupportedf("operator %s", e.Op)
}

func isText(v Value) bool { _, ok := v.(string); return ok }

// compareValues implements the comparison operators with SQL NULL semantics.
func compareValues(op string, lv, rv Value, le, re Expr) (Value, error) {
	// a bare string constant takes the type of the other operand
	if ls, ok := lv.(string); ok && isStringLit(le) && rv != nil && !isText(rv) {
		v, err := coerceUnknown(ls, rv)
		if err != nil {
			return nil, err
		}
		lv = v
	} else if rs, ok := rv.(string); ok && isStringLit(re) && lv != nil && !isText(lv) {
		v, err := coerceUnknown(rs, lv)
		if err != nil {
			return nil, err
		}
		rv = v
	}
	if lv == nil || rv == nil {
		return nil, nil
	}
	mismatch := func() (Value, error) {
		return nil, raisef("operator does not exist: %s %s %s", typeName(lv), op, typeName(rv))
	}
	var cmp int
	switch l := lv.(type) {
	case bool:
		r, ok := rv.(bool)
		if !ok {
			return mismatch()
		}
		cmp = int(boolToInt(l) - boolToInt(r))
	case int64:
		switch r := rv.(type) {
		case int64:
			switch {
			case l < r:
				cmp = -1
			case l > r:
				cmp = 1
			}
		case float64:
			cmp = new(big.Float).SetInt64(l).Cmp(big.NewFloat(r))
		default:
			return mismatch()
		}
	case float64:
		if math.IsNaN(l) {
			return nil, unsupportedf("NaN")
		}
		switch r := rv.(type) {
		case int64:
			cmp = big.NewFloat(l).Cmp(new(big.Float).SetInt64(r))
		case float64:
			if math.IsNaN(r) {
				return nil, unsupportedf("NaN")
			}
			switch {
			case l < r:
				cmp = -1
			case l > r:
				cmp = 1
			}
		default:
			return mismatch()
		}
	case string:
		r, ok := rv.(string)
		if !ok {
			return mismatch()
		}
		if op != "=" && op != "!=" && op != "<>" {
			return nil, unsupportedf("ordering of text values depends on the collation")
		}
		if l != r {
			cmp = 1
		}
	case JSON:
		r, ok := rv.(JSON)
		if !ok {
			return mismatch()
		}
		if op != "=" && op != "!=" && op != "<>" {
			return nil, unsupportedf("ordering of jsonb values")
		}
		eq, err := jsonEqual(l.V, r.V)
		if err != nil {
			return nil, err
		}
		if !eq {
			cmp = 1
		}
	case Array:
		if _, ok := rv.(Array); !ok {
			return mismatch()
		}
		return nil, unsupportedf("comparison of arrays")
	default:
		return nil, unsupportedf("comparison of %T", lv)
	}
	switch op {
	case "=":
		return cmp == 0, nil
	case "!=", "<>":
		return cmp != 0, nil
	case "<":
		return cmp < 0, nil
	case ">":
		return cmp > 0, nil
	case "<=":
		return cmp <= 0, nil
	case ">=":
		return cmp >= 0, nil
	}
	return nil, unsupportedf("operator %s", op)
}

// evalIn: true on a match; else NULL if x or any element is NULL; else false.
// Every element is type-checked against x (PostgreSQL does so when parsing).
func (c *evalCtx) evalIn(sc *scope, e *In) (Value, error) {
	x, err := c.eval(sc, e.X)
	if err != nil {
		return nil, err
	}
	vals := make([]Value, len(e.List))
	for i, a := range e.List {
		vals[i], err = c.eval(sc, a)
		if err != nil {
			return nil, err
		}
	}
	match, sawNull := false, false
	for i, v := range vals {
		r, err := compareValues("=", x, v, e.X, e.List[i])
		if err != nil {
			return nil, err
		}
		switch r {
		case nil:
			sawNull = true
		case true:
			match = true
		}
	}
	var res Value
	switch {
	case match:
		res = true
	case sawNull:
		return nil, nil
	default:
		res = false
	}
	if e.Not {
		return !res.(bool), nil
	}
	return res, nil
}

// jsonArrow implements j -> key, j -> index, j ->> key, j ->> index.
func jsonArrow(op string, lv, rv Value, le Expr) (Value, error) {
	j, lnull, err := asJSON(lv, le, "operator "+op)
	if err != nil {
		return nil, err
	}
	var elem interface{}
	found := false
	switch k := rv.(type) {
	case nil:
		return nil, nil
	case string:
		if lnull {
			return nil, nil
		}
		if obj, ok := j.V.(map[string]interface{}); ok {
			elem, found = obj[k]
		}
	case int64:
		if lnull {
			return nil, nil
		}
		if arr, ok := j.V.([]interface{}); ok {
			i := k
			if i < 0 {
				i += int64(len(arr))
			}
			if i >= 0 && i < int64(len(arr)) {
				elem, found = arr[i], true
			}
		}
	default:
		return nil, raisef("operator does not exist: jsonb %s %s", op, typeName(rv))
	}
	if !found {
		return nil, nil
	}
	if op == "->" {
		return JSON{V: elem}, nil
	}
	return jsonAsText(elem)
}

// jsonAsText is the ->> / #>> conversion: strings unquoted, JSON null -> SQL
// NULL, anything else its jsonb text.
func jsonAsText(v interface{}) (Value, error) {
	switch x := v.(type) {
	case nil:
		return nil, nil
	case string:
		return x, nil
	}
	s, err := jsonText(v)
	if err != nil {
		return nil, err
	}
	return s, nil
}

// jsonPathText implements j #>> '{a,b}'. The path must be a string constant
// made of simple elements.
func jsonPathText(lv, rv Value, le, re Expr) (Value, error) {
	j, lnull, err := asJSON(lv, le, "operator #>>")
	if err != nil {
		return nil, err
	}
	if rv == nil {
		return nil, nil
	}
	ps, ok := rv.(string)
	if !ok {
		return nil, raisef("operator does not exist: jsonb #>> %s", typeName(rv))
	}
	if !isStringLit(re) {
		return nil, unsupportedf("#>> with a path that is not a string constant")
	}
	ps = strings.TrimSpace(ps)
	if len(ps) < 2 || ps[0] != '{' || ps[len(ps)-1] != '}' {
		return nil, raisef("malformed array literal: %q", ps)
	}
	inner := ps[1 : len(ps)-1]
	var path []string
	if strings.TrimSpace(inner) != "" {
		if strings.ContainsAny(inner, "\"\\{}") {
			return nil, unsupportedf("#>> path %q with quoted or nested elements", ps)
		}
		for _, el := range strings.Split(inner, ",") {
			el = strings.TrimSpace(el)
			if el == "" || strings.EqualFold(el, "null") {
				return nil, unsupportedf("#>> path %q with an empty or NULL element", ps)
			}
			path = append(path, el)
		}
	}
	if lnull {
		return nil, nil
	}
	cur := j.V
	for _, el := range path {
		switch x := cur.(type) {
		case map[string]interface{}:
			next, ok := x[el]
			if !ok {
				return nil, nil
			}
			cur = next
		case []interface{}:
			i, err := strconv.ParseInt(el, 10, 64)
			if err != nil {
				return nil, nil
			}
			if i < 0 {
				i += int64(len(x))
			}
			if i < 0 || i >= int64(len(x)) {
				return nil, nil
			}
			cur = x[i]
		default:
			return nil, nil
		}
	}
	return jsonAsText(cur)
}

// ---------------------------------------------------------------- casts

// typeFamily maps a normalised type name to the Go representation family.
func typeFamily(t string) string {
	switch strings.ToLower(t) {
	case "integer", "int", "int4", "smallint", "int2", "bigint", "int8":
		return "int"
	case "boolean", "bool":
		return "bool"
	case "text":
		return "text"
	case "jsonb":
		return "jsonb"
	case "numeric", "decimal", "double precision", "float8":
		return "numeric"
	}
	return ""
}

func intRange(t string) (lo, hi int64, name string) {
	switch strings.ToLower(t) {
	case "smallint", "int2":
		return math.MinInt16, math.MaxInt16, "smallint"
	case "bigint", "int8":
		return math.MinInt64, math.MaxInt64, "bigint"
	}
	return math.MinInt32, math.MaxInt32, "integer"
}

func castValue(v Value, typ string) (Value, error) {
	fam := typeFamily(typ)
	if fam == "" {
		return nil, unsupportedf("cast to %s", typ)
	}
	if v == nil {
		return nil, nil
	}
	cannot := func() (Value, error) {
		return nil, raisef("cannot cast type %s to %s", typeName(v), typ)
	}
	switch fam {
	case "int":
		lo, hi, name := intRange(typ)
		inRange := func(i int64, ok bool) (Value, error) {
			if !ok || i < lo || i > hi {
				return nil, raisef("%s out of range", name)
			}
			return i, nil
		}
		switch x := v.(type) {
		case int64:
			return inRange(x, true)
		case float64:
			if math.IsNaN(x) || math.IsInf(x, 0) {
				return nil, raisef("%s out of range", name)
			}
			d, ok := parseDecimal(strconv.FormatFloat(x, 'f', -1, 64))
			if !ok {
				return nil, unsupportedf("cast of %v to %s", x, typ)
			}
			return inRange(d.roundToInt())
		case string:
			i, ok := parseIntText(x)
			if !ok {
				return nil, raisef("invalid input syntax for type %s: %q", name, x)
			}
			return inRange(i, true)
		case bool:
			if name != "integer" {
				return cannot()
			}
			return boolToInt(x), nil
		case JSON:
			n, ok := x.V.(json.Number)
			if !ok {
				kind, err := jsonKind(x.V)
				if err != nil {
					return nil, err
				}
				return nil, raisef("cannot cast jsonb %s to type %s", castKind(kind), name)
			}
			d, ok := parseDecimal(string(n))
			if !ok {
				return nil, unsupportedf("malformed JSON number %q", string(n))
			}
			return inRange(d.roundToInt())
		}
		return cannot()

	case "bool":
		switch x := v.(type) {
		case bool:
			return x, nil
		case string:
			b, ok := parseBoolText(x)
			if !ok {
				return nil, raisef("invalid input syntax for type boolean: %q", x)
			}
			return b, nil
		case int64:
			return x != 0, nil
		case JSON:
			b, ok := x.V.(bool)
			if !ok {
				kind, err := jsonKind(x.V)
				if err != nil {
					return nil, err
				}
				return nil, raisef("cannot cast jsonb %s to type boolean", castKind(kind))
			}
			return b, nil
		}
		return cannot()

	case "text":
		switch x := v.(type) {
		case string:
			return x, nil
		case int64:
			return strconv.FormatInt(x, 10), nil
		case bool:
			if x {
				return "true", nil
			}
			return "false", nil
		case JSON:
			s, err := jsonText(x.V)
			if err != nil {
				return nil, err
			}
			return s, nil
		case float64:
			return nil, unsupportedf("cast of a numeric value to text (display scale is not tracked)")
		}
		return nil, unsupportedf("cast of %s to text", typeName(v))

	case "jsonb":
		switch x := v.(type) {
		case JSON:
			return x, nil
		case string:
			j, err := ParseJSON(x)
			if err != nil {
				return nil, raisef("invalid input syntax for type json: %q", x)
			}
			return j, nil
		}
		return cannot()

	case "numeric":
		switch x := v.(type) {
		case float64:
			return x, nil
		case int64:
			return float64(x), nil
		case string:
			s := strings.TrimSpace(x)
			if _, ok := parseDecimal(s); !ok {
				return nil, raisef("invalid input syntax for type numeric: %q", x)
			}
			f, err := strconv.ParseFloat(s, 64)
			if err != nil {
				return nil, unsupportedf("numeric value %q beyond float64", x)
			}
			return f, nil
		case JSON:
			n, ok := x.V.(json.Number)
			if !ok {
				kind, err := jsonKind(x.V)
				if err != nil {
					return nil, err
				}
				return nil, raisef("cannot cast jsonb %s to type %s", castKind(kind), typ)
			}
			f, err := strconv.ParseFloat(string(n), 64)
			if err != nil {
				return nil, unsupportedf("JSON number %q beyond float64", string(n))
			}
			return f, nil
		}
		return cannot()
	}
	return nil, unsupportedf("cast to %s", typ)
}

// ---------------------------------------------------------------- calls

func (c *evalCtx) evalCall(sc *scope, e *Call) (Value, error) {
	name := Fold(e.Func)
	args := make([]Value, len(e.Args))
	for i, a := range e.Args {
		v, err := c.eval(sc, a)
		if err != nil {
			return nil, err
		}
		args[i] = v
	}
	switch name {
	case "jsonb_typeof":
		if len(args) != 1 {
			return nil, &UndefinedFunction{Name: name, NArgs: len(args)}
		}
		j, null, err := asJSON(args[0], e.Args[0], "function jsonb_typeof")
		if err != nil || null {
			return nil, err
		}
		kind, err := jsonKind(j.V)
		if err != nil {
			return nil, err
		}
		return kind, nil

	case "jsonb_array_length":
		if len(args) != 1 {
			return nil, &UndefinedFunction{Name: name, NArgs: len(args)}
		}
		j, null, err := asJSON(args[0], e.Args[0], "function jsonb_array_length")
		if err != nil || null {
			return nil, err
		}
		switch x := j.V.(type) {
		case []interface{}:
			return int64(len(x)), nil
		case map[string]interface{}:
			return nil, raisef("cannot get array length of a non-array")
		}
		if _, err := jsonKind(j.V); err != nil {
			return nil, err
		}
		return nil, raisef("cannot get array length of a scalar")

	case "array_length":
		if len(args) != 2 {
			return nil, &UndefinedFunction{Name: name, NArgs: len(args)}
		}
		var (
			arr    Array
			dim    int64
			hasArr bool
			hasDim bool
		)
		switch a := args[0].(type) {
		case nil:
		case Array:
			arr, hasArr = a, true
		default:
			return nil, raisef("function array_length(%s, %s) does not exist", typeName(args[0]), typeName(args[1]))
		}
		switch d := args[1].(type) {
		case nil:
		case int64:
			dim, hasDim = d, true
		default:
			return nil, raisef("function array_length(%s, %s) does not exist", typeName(args[0]), typeName(args[1]))
		}
		if !hasArr || !hasDim {
			return nil, nil
		}
		for _, el := range arr {
			if _, nested := el.(Array); nested {
				return nil, unsupportedf("multi-dimensional arrays")
			}
		}
		if dim != 1 || len(arr) == 0 {
			return nil, nil // PostgreSQL: the empty array has no dimension
		}
		return int64(len(arr)), nil

	case "bool_and":
		return nil, unsupportedf("aggregate %s outside (SELECT %s(expr) FROM func(expr))", name, name)
	case "jsonb_each", "jsonb_array_elements":
		return nil, unsupportedf("set-returning function %s outside a sub-select FROM", name)
	}

	var f *Function
	ok := false
	if c.s != nil {
		f, ok = c.s.Functions[name]
	}
	if !ok {
		return nil, &UndefinedFunction{Name: name, NArgs: len(args)}
	}
	return c.callUser(f, args, e.Args)
}

func (c *evalCtx) evalSubSelect(sc *scope, e *SubSelect) (Value, error) {
	if e.Agg != "bool_and" {
		return nil, unsupportedf("aggregate %s", e.Agg)
	}
	src, err := c.eval(sc, e.FromArg)
	if err != nil {
		return nil, err
	}
	j, null, err := asJSON(src, e.FromArg, "function "+e.From)
	if err != nil {
		return nil, err
	}
	var rows []map[string]Value
	if !null { // the functions are strict: NULL input, no rows
		switch e.From {
		case "jsonb_array_elements":
			switch x := j.V.(type) {
			case []interface{}:
				for _, el := range x {
					rows = append(rows, map[string]Value{"value": JSON{V: el}})
				}
			case map[string]interface{}:
				return nil, raisef("cannot extract elements from an object")
			default:
				if _, err := jsonKind(j.V); err != nil {
					return nil, err
				}
				return nil, raisef("cannot extract elements from a scalar")
			}
		case "jsonb_each":
			obj, ok := j.V.(map[string]interface{})
			if !ok {
				if _, err := jsonKind(j.V); err != nil {
					return nil, err
				}
				return nil, raisef("cannot call jsonb_each on a non-object")
			}
			keys := make([]string, 0, len(obj))
			for k := range obj {
				keys = append(keys, k)
			}
			sort.Slice(keys, func(a, b int) bool { // jsonb storage order
				if len(keys[a]) != len(keys[b]) {
					return len(keys[a]) < len(keys[b])
				}
				return keys[a] < keys[b]
			})
			for _, k := range keys {
				rows = append(rows, map[string]Value{"key": k, "value": JSON{V: obj[k]}})
			}
		default:
			return nil, unsupportedf("set-returning function %s", e.From)
		}
	}
	// bool_and: NULL inputs are ignored; no (non-NULL) input gives NULL.
	var res Value
	inner := &scope{vars: sc.vars, plpgsql: sc.plpgsql}
	for _, row := range rows {
		inner.rows = append(append([]map[string]Value{}, sc.rows...), row)
		v, err := c.eval(inner, e.Arg)
		if err != nil {
			return nil, err
		}
		b, isNull, err := asBool(v, e.Arg, "bool_and")
		if err != nil {
			return nil, err
		}
		if isNull {
			continue
		}
		if res == nil {
			res = b
		} else {
			res = res.(bool) && b
		}
	}
	return res, nil
}

// ---------------------------------------------------------------- PL/pgSQL

// conform checks (and, for string constants, converts) a value bound to a
// variable, parameter or result of the given declared type.
func conform(v Value, typ string, fromLit bool, what string) (Value, error) {
	fam := typeFamily(typ)
	if fam == "" {
		return nil, unsupportedf("%s of type %s", what, typ)
	}
	if v == nil {
		return nil, nil
	}
	if s, ok := v.(string); ok && fromLit && fam != "text" {
		var like Value
		switch fam {
		case "int":
			like = int64(0)
		case "bool":
			like = false
		case "jsonb":
			like = JSON{}
		case "numeric":
			like = float64(0)
		}
		return coerceUnknown(s, like)
	}
	ok := false
	switch v.(type) {
	case bool:
		ok = fam == "bool"
	case int64:
		ok = fam == "int" || fam == "numeric"
	case float64:
		ok = fam == "numeric"
	case string:
		ok = fam == "text"
	case JSON:
		ok = fam == "jsonb"
	}
	if !ok {
		return nil, unsupportedf("%s of type %s given a %s value (implicit conversions are not modelled)", what, typ, typeName(v))
	}
	if fam == "int" {
		lo, hi, name := intRange(typ)
		if i := v.(int64); i < lo || i > hi {
			return nil, raisef("%s out of range", name)
		}
	}
	if fam == "numeric" {
		if i, isInt := v.(int64); isInt {
			return float64(i), nil
		}
	}
	return v, nil
}

// callUser runs a PL/pgSQL function. argExprs (possibly nil) are the argument
// expressions, used to recognise string constants.
func (c *evalCtx) callUser(f *Function, args []Value, argExprs []Expr) (Value, error) {
	if len(args) != len(f.Params) {
		return nil, &UndefinedFunction{Name: Fold(f.Name), NArgs: len(args)}
	}
	if f.Body == nil {
		return nil, unsupportedf("function %s has no parsed body", f.Name)
	}
	c.depth++
	defer func() { c.depth-- }()
	if c.depth > MaxCallDepth {
		return nil, raisef("stack depth limit exceeded")
	}
	vars := make(map[string]Value, len(f.Params)+len(f.Body.Decls))
	types := make(map[string]string, len(f.Params)+len(f.Body.Decls))
	anyNull := false
	for i, p := range f.Params {
		fromLit := argExprs != nil && isStringLit(argExprs[i])
		v, err := conform(args[i], p.Type, fromLit, "parameter "+p.Name+" of "+f.Name)
		if err != nil {
			if _, isUns := err.(*Unsupported); isUns && typeFamily(p.Type) != "" {
				return nil, raisef("function %s(%s) does not exist", Fold(f.Name), typeName(args[i]))
			}
			return nil, err
		}
		if v == nil {
			anyNull = true
		}
		vars[Fold(p.Name)] = v
		types[Fold(p.Name)] = p.Type
	}
	if typeFamily(f.Returns) == "" {
		return nil, unsupportedf("function %s returning %s", f.Name, f.Returns)
	}
	if f.Strict && anyNull {
		return nil, nil
	}
	sc := &scope{vars: vars, plpgsql: true}
	for _, d := range f.Body.Decls {
		var v Value
		if d.Init != nil {
			var err error
			v, err = c.eval(sc, d.Init)
			if err != nil {
				return nil, err
			}
		}
		v, err := conform(v, d.Type, d.Init != nil && isStringLit(d.Init), "variable "+d.Name)
		if err != nil {
			return nil, err
		}
		vars[Fold(d.Name)] = v
		types[Fold(d.Name)] = d.Type
	}
	fr := &frame{c: c, sc: sc, types: types}
	ret, returned, err := fr.execStmts(f.Body.Stmts)
	if err != nil {
		return nil, err
	}
	if !returned {
		return nil, raisef("control reached end of function without RETURN")
	}
	return conform(ret, f.Returns, false, "result of "+f.Name)
}

type frame struct {
	c     *evalCtx
	sc    *scope
	types map[string]string
}

func (fr *frame) execStmts(stmts []Stmt) (ret Value, returned bool, err error) {
	for _, st := range stmts {
		ret, returned, err = fr.execStmt(st)
		if err != nil || returned {
			return ret, returned, err
		}
	}
	return nil, false, nil
}

func (fr *frame) cond(e Expr, what string) (bool, error) {
	v, err := fr.c.eval(fr.sc, e)
	if err != nil {
		return false, err
	}
	b, null, err := asBool(v, e, what)
	if err != nil {
		return false, err
	}
	return b && !null, nil // NULL: branch not taken
}

func (fr *frame) execStmt(st Stmt) (Value, bool, error) {
	switch st := st.(type) {
	case *NullStmt:
		return nil, false, nil

	case *IfStmt:
		for _, b := range st.Branches {
			ok, err := fr.cond(b.Cond, "IF")
			if err != nil {
				return nil, false, err
			}
			if ok {
				return fr.execStmts(b.Body)
			}
		}
		return fr.execStmts(st.Else)

	case *CaseStmt:
		for _, b := range st.Whens {
			ok, err := fr.cond(b.Cond, "CASE/WHEN")
			if err != nil {
				return nil, false, err
			}
			if ok {
				return fr.execStmts(b.Body)
			}
		}
		if !st.HasElse {
			return nil, false, raisef("case not found")
		}
		return fr.execStmts(st.Else)

	case *ReturnStmt:
		v, err := fr.c.eval(fr.sc, st.X)
		if err != nil {
			return nil, false, err
		}
		return v, true, nil

	case *AssignStmt:
		key := Fold(st.Name)
		typ, ok := fr.types[key]
		if !ok {
			return nil, false, raisef("%q is not a known variable", st.Name)
		}
		v, err := fr.c.eval(fr.sc, st.X)
		if err != nil {
			return nil, false, err
		}
		v, err = conform(v, typ, isStringLit(st.X), "variable "+st.Name)
		if err != nil {
			return nil, false, err
		}
		fr.sc.vars[key] = v
		return nil, false, nil

	case *RaiseStmt:
		texts := make([]string, len(st.Args))
		for i, a := range st.Args {
			v, err := fr.c.eval(fr.sc, a)
			if err != nil {
				return nil, false, err
			}
			texts[i] = displayText(v)
		}
		if st.Level == "EXCEPTION" {
			return nil, false, &RaisedError{Msg: formatRaise(st.Format, texts)}
		}
		return nil, false, nil // DEBUG, LOG, INFO, NOTICE, WARNING: no effect
	}
	return nil, false, unsupportedf("statement %T", st)
}

// displayText renders a value for a RAISE message (informative only).
func displayText(v Value) string {
	switch x := v.(type) {
	case nil:
		return "<NULL>"
	case bool:
		if x {
			return "t"
		}
		return "f"
	case int64:
		return strconv.FormatInt(x, 10)
	case float64:
		return strconv.FormatFloat(x, 'f', -1, 64)
	case string:
		return x
	case JSON:
		s, err := jsonText(x.V)
		if err != nil {
			return "<json>"
		}
		return s
	case Array:
		parts := make([]string, len(x))
		for i, e := range x {
			parts[i] = displayText(e)
		}
		return "{" + strings.Join(parts, ",") + "}"
	}
	return "?"
}
