package pgx

import (
	"sort"
	"strings"
)

// Script is a parsed SQL script.
type Script struct {
	Tables      []*Table             // in order of appearance
	Types       []*CompositeType     // CREATE TYPE name AS (field type, ...)
	Functions   map[string]*Function // key: lower-cased name; the last definition wins
	FunctionDup []string             // (lower-cased) names defined more than once with different text, or re-created without OR REPLACE
	Constraints []*Constraint        // every ALTER TABLE statement, in order
	Other       []string             // any other complete statement, trimmed, without the final ';'
	Comments    []string             // top-level "-- ..." comments, in order (including the "--")
}

// Table is a CREATE TABLE statement.
type Table struct {
	Name    string
	Columns []*Column
	Raw     string
}

// Column is a column definition.
type Column struct {
	Name       string // as written; compare with Fold
	Type       string // normalised, see parseType
	NotNull    bool   // an explicit NOT NULL is present (PRIMARY KEY alone does not set it)
	PrimaryKey bool
	Check      Expr // inline CHECK (expr), or nil
	Raw        string
}

// CompositeType is CREATE TYPE name AS (field type, ...).
type CompositeType struct {
	Name   string
	Fields []struct{ Name, Type string }
	Raw    string
}

// Param is a function parameter.
type Param struct{ Name, Type string }

// Function is CREATE [OR REPLACE] FUNCTION ... LANGUAGE plpgsql.
type Function struct {
	Name       string // as written
	Params     []Param
	Returns    string // normalised type
	Replace    bool   // OR REPLACE present
	Language   string // lower-cased: "plpgsql"
	Volatility string // "IMMUTABLE", "STABLE", "VOLATILE" or ""
	Strict     bool
	Body       *Body
	BodyText   string
	Raw        string
}

// Constraint is an ALTER TABLE statement.
type Constraint struct {
	Table      string
	Kind       string // "check", "foreign_key", "unique", "primary_key", "set_default", "other"
	Name       string // CONSTRAINT name, if present
	Check      Expr   // "check"
	Columns    []string
	RefTable   string
	RefColumns []string
	OnDelete   string // "", "CASCADE", "SET NULL", "SET DEFAULT", "RESTRICT", "NO ACTION"
	OnUpdate   string
	Default    Expr // "set_default"
	Raw        string
}

// Fold folds an unquoted identifier the way PostgreSQL does (lower case).
func Fold(name string) string { return strings.ToLower(name) }

// Table returns the table with the given (case-insensitive) name, or nil.
func (s *Script) Table(name string) *Table {
	for _, t := range s.Tables {
		if Fold(t.Name) == Fold(name) {
			return t
		}
	}
	return nil
}

// Column returns the column with the given (case-insensitive) name, or nil.
func (t *Table) Column(name string) *Column {
	for _, c := range t.Columns {
		if Fold(c.Name) == Fold(name) {
			return c
		}
	}
	return nil
}

// Type returns the composite type with the given (case-insensitive) name, or nil.
func (s *Script) Type(name string) *CompositeType {
	for _, t := range s.Types {
		if Fold(t.Name) == Fold(name) {
			return t
		}
	}
	return nil
}

// ParseScript parses a whole script.
func ParseScript(src string) (*Script, error) {
	toks, comments, err := lexRange(src, 0, len(src))
	if err != nil {
		return nil, err
	}
	s := &Script{Functions: map[string]*Function{}}
	for _, c := range comments {
		if c.line {
			s.Comments = append(s.Comments, c.text)
		}
	}
	dup := map[string]bool{}
	start := 0
	for i := 0; i <= len(toks); i++ {
		if i < len(toks) && !toks[i].isOp(";") {
			continue
		}
		stmt := toks[start:i]
		start = i + 1
		if len(stmt) == 0 {
			continue // empty statement
		}
		if err := checkBalance(src, stmt); err != nil {
			return nil, err
		}
		if err := s.parseStatement(src, stmt, dup); err != nil {
			return nil, err
		}
	}
	sort.Strings(s.FunctionDup)
	return s, nil
}

func (s *Script) parseStatement(src string, toks []token, dup map[string]bool) error {
	first, last := toks[0], toks[len(toks)-1]
	raw := src[first.pos:last.end]
	p := newParser(src, toks, last.end)

	switch {
	case first.kind == tIdent:
	case first.isOp("("):
		// parenthesised SELECT and the like
		s.Other = append(s.Other, raw)
		return nil
	default:
		return p.syntaxErr(first, "a statement cannot start with %s", first.describe())
	}

	second := p.peekAt(1)
	switch {
	case first.up == "CREATE" && second.isKw("TABLE"):
		t, err := p.parseCreateTable(raw)
		if err != nil {
			return err
		}
		s.Tables = append(s.Tables, t)

	case first.up == "CREATE" && second.isKw("TYPE"):
		t, err := p.parseCreateType(raw)
		if err != nil {
			return err
		}
		s.Types = append(s.Types, t)

	case first.up == "CREATE" && (second.isKw("FUNCTION") ||
		(second.isKw("OR") && p.peekAt(2).isKw("REPLACE") && p.peekAt(3).isKw("FUNCTION"))):
		f, err := p.parseCreateFunction(raw)
		if err != nil {
			return err
		}
		key := Fold(f.Name)
		if old, ok := s.Functions[key]; ok {
			if !f.Replace || !sameFunction(old, f) {
				if !dup[key] {
					dup[key] = true
					s.FunctionDup = append(s.FunctionDup, key)
				}
			}
		}
		s.Functions[key] = f

	case first.up == "ALTER" && second.isKw("TABLE"):
		c, err := p.parseAlterTable(raw)
		if err != nil {
			return err
		}
		s.Constraints = append(s.Constraints, c)

	default:
		s.Other = append(s.Other, raw)
	}
	return nil
}

func sameFunction(a, b *Function) bool {
	if a.BodyText != b.BodyText || a.Returns != b.Returns || len(a.Params) != len(b.Params) ||
		a.Strict != b.Strict || a.Volatility != b.Volatility {
		return false
	}
	for i := range a.Params {
		if Fold(a.Params[i].Name) != Fold(b.Params[i].Name) || a.Params[i].Type != b.Params[i].Type {
			return false
		}
	}
	return true
}

// parseName parses an unqualified, unquoted object name.
func (p *parser) parseName(what string) (string, error) {
	t := p.peek()
	switch t.kind {
	case tIdent:
		p.next()
		if p.isOp(".") {
			return "", p.unsupported(p.peek(), "schema-qualified %s is not modelled", what)
		}
		return t.text, nil
	case tQIdent:
		return "", p.unsupported(t, "quoted %s is not modelled", what)
	}
	return "", p.syntaxErr(t, "expected %s, found %s", what, t.describe())
}

// parseNameList parses '(' name {',' name} ')'.
func (p *parser) parseNameList(what string) ([]string, error) {
	if !p.acceptOp("(") {
		return nil, p.syntaxErr(p.peek(), "expected \"(\" before the %s, found %s", what, p.peek().describe())
	}
	var out []string
	for {
		n, err := p.parseName("column name")
		if err != nil {
			return nil, err
		}
		out = append(out, n)
		if p.acceptOp(",") {
			continue
		}
		if p.acceptOp(")") {
			return out, nil
		}
		return nil, p.syntaxErr(p.peek(), "expected \",\" or \")\" in the %s, found %s", what, p.peek().describe())
	}
}

// ---------------------------------------------------------------- CREATE TABLE

var tableConstraintStarters = map[string]bool{
	"CONSTRAINT": true, "PRIMARY": true, "UNIQUE": true, "CHECK": true, "FOREIGN": true,
	"EXCLUDE": true, "LIKE": true,
}

func (p *parser) parseCreateTable(raw string) (*Table, error) {
	p.next() // CREATE
	p.next() // TABLE
	if p.isKw("IF") {
		p.next()
		if err := p.expectKw("NOT"); err != nil {
			return nil, err
		}
		if err := p.expectKw("EXISTS"); err != nil {
			return nil, err
		}
	}
	name, err := p.parseName("table name")
	if err != nil {
		return nil, err
	}
	t := &Table{Name: name, Raw: raw}
	if !p.acceptOp("(") {
		if n := p.peek(); n.isKw("AS") || n.isKw("OF") || n.isKw("PARTITION") {
			return nil, p.unsupported(n, "CREATE TABLE ... %s is not modelled", n.up)
		}
		return nil, p.syntaxErr(p.peek(), "expected \"(\" after the table name, found %s", p.peek().describe())
	}
	if !p.acceptOp(")") {
		for {
			c, err := p.parseColumn()
			if err != nil {
				return nil, err
			}
			if t.Column(c.Name) != nil {
				return nil, p.syntaxErr(p.peek(), "column %q specified more than once", c.Name)
			}
			t.Columns = append(t.Columns, c)
			if p.acceptOp(",") {
				continue
			}
			if p.acceptOp(")") {
				break
			}
			return nil, p.unexpected("\",\" or \")\" after the column definition")
		}
	}
	if !p.atEOF() {
		n := p.peek()
		if n.kind == tIdent {
			return nil, p.unsupported(n, "CREATE TABLE option %s is not modelled", n.up)
		}
		return nil, p.syntaxErr(n, "unexpected %s after the column list", n.describe())
	}
	return t, nil
}

func (p *parser) parseColumn() (*Column, error) {
	nameTok := p.peek()
	switch nameTok.kind {
	case tIdent:
	case tQIdent:
		return nil, p.unsupported(nameTok, "quoted column name is not modelled")
	default:
		return nil, p.syntaxErr(nameTok, "expected a column name, found %s", nameTok.describe())
	}
	if tableConstraintStarters[nameTok.up] {
		return nil, p.unsupported(nameTok, "table constraint / %s inside CREATE TABLE is not modelled", nameTok.up)
	}
	p.next()
	ty, err := p.parseType()
	if err != nil {
		return nil, err
	}
	c := &Column{Name: nameTok.text, Type: ty}
	for !p.isOp(",") && !p.isOp(")") && !p.atEOF() {
		t := p.peek()
		switch {
		case t.isKw("NOT"):
			p.next()
			if !p.acceptKw("NULL") {
				return nil, p.syntaxErr(p.peek(), "expected NULL after NOT, found %s", p.peek().describe())
			}
			c.NotNull = true
		case t.isKw("NULL"):
			p.next()
		case t.isKw("PRIMARY"):
			p.next()
			if !p.acceptKw("KEY") {
				return nil, p.syntaxErr(p.peek(), "expected KEY after PRIMARY, found %s", p.peek().describe())
			}
			c.PrimaryKey = true
		case t.isKw("CHECK"):
			p.next()
			if c.Check != nil {
				return nil, p.unsupported(t, "several CHECK constraints on one column are not modelled")
			}
			if !p.acceptOp("(") {
				return nil, p.syntaxErr(p.peek(), "expected \"(\" after CHECK, found %s", p.peek().describe())
			}
			c.Check, err = p.parseExpr()
			if err != nil {
				return nil, err
			}
			if !p.acceptOp(")") {
				return nil, p.unexpected("\")\" closing the CHECK")
			}
		case t.kind == tIdent:
			switch t.up {
			case "DEFAULT", "UNIQUE", "REFERENCES", "CONSTRAINT", "COLLATE", "GENERATED", "DEFERRABLE", "INITIALLY", "STORAGE", "COMPRESSION":
				return nil, p.unsupported(t, "column option %s is not modelled", t.up)
			}
			return nil, p.syntaxErr(t, "unexpected %s in the definition of column %s", t.describe(), c.Name)
		default:
			return nil, p.unexpected("a column constraint")
		}
	}
	endPos := nameTok.end
	if p.i > 0 {
		endPos = p.toks[p.i-1].end
	}
	c.Raw = p.src[nameTok.pos:endPos]
	return c, nil
}

// ---------------------------------------------------------------- CREATE TYPE

func (p *parser) parseCreateType(raw string) (*CompositeType, error) {
	p.next() // CREATE
	p.next() // TYPE
	name, err := p.parseName("type name")
	if err != nil {
		return nil, err
	}
	ct := &CompositeType{Name: name, Raw: raw}
	if !p.acceptKw("AS") {
		if p.atEOF() || p.isOp("(") {
			return nil, p.unsupported(p.peek(), "shell / base type definitions are not modelled")
		}
		return nil, p.syntaxErr(p.peek(), "expected AS, found %s", p.peek().describe())
	}
	if n := p.peek(); n.isKw("ENUM") || n.isKw("RANGE") {
		return nil, p.unsupported(n, "CREATE TYPE ... AS %s is not modelled", n.up)
	}
	if !p.acceptOp("(") {
		return nil, p.syntaxErr(p.peek(), "expected \"(\" after AS, found %s", p.peek().describe())
	}
	if !p.acceptOp(")") {
		for {
			n, err := p.parseName("field name")
			if err != nil {
				return nil, err
			}
			ty, err := p.parseType()
			if err != nil {
				return nil, err
			}
			if p.isKw("COLLATE") {
				return nil, p.unsupported(p.peek(), "COLLATE is not modelled")
			}
			for _, f := range ct.Fields {
				if Fold(f.Name) == Fold(n) {
					return nil, p.syntaxErr(p.peek(), "field %q specified more than once", n)
				}
			}
			ct.Fields = append(ct.Fields, struct{ Name, Type string }{n, ty})
			if p.acceptOp(",") {
				continue
			}
			if p.acceptOp(")") {
				break
			}
			return nil, p.unexpected("\",\" or \")\" after the field")
		}
	}
	if !p.atEOF() {
		return nil, p.syntaxErr(p.peek(), "unexpected %s after the field list", p.peek().describe())
	}
	return ct, nil
}

// ---------------------------------------------------------------- CREATE FUNCTION

func (p *parser) parseCreateFunction(raw string) (*Function, error) {
	f := &Function{Raw: raw}
	p.next() // CREATE
	if p.acceptKw("OR") {
		p.next() // REPLACE
		f.Replace = true
	}
	p.next() // FUNCTION
	name, err := p.parseName("function name")
	if err != nil {
		return nil, err
	}
	f.Name = name
	if !p.acceptOp("(") {
		return nil, p.syntaxErr(p.peek(), "expected \"(\" after the function name, found %s", p.peek().describe())
	}
	if !p.acceptOp(")") {
		for {
			t := p.peek()
			if t.isKw("IN") || t.isKw("OUT") || t.isKw("INOUT") || t.isKw("VARIADIC") {
				return nil, p.unsupported(t, "argument mode %s is not modelled", t.up)
			}
			n, err := p.parseName("parameter name")
			if err != nil {
				return nil, err
			}
			if p.isOp(",") || p.isOp(")") {
				return nil, p.unsupported(t, "unnamed parameters are not modelled")
			}
			ty, err := p.parseType()
			if err != nil {
				return nil, err
			}
			if d := p.peek(); d.isKw("DEFAULT") || d.isOp("=") {
				return nil, p.unsupported(d, "parameter defaults are not modelled")
			}
			for _, q := range f.Params {
				if Fold(q.Name) == Fold(n) {
					return nil, p.syntaxErr(t, "parameter name %q used more than once", n)
				}
			}
			f.Params = append(f.Params, Param{Name: n, Type: ty})
			if p.acceptOp(",") {
				continue
			}
			if p.acceptOp(")") {
				break
			}
			return nil, p.unexpected("\",\" or \")\" in the parameter list")
		}
	}
	if !p.acceptKw("RETURNS") {
		if p.atEOF() {
			return nil, p.syntaxErr(p.peek(), "incomplete CREATE FUNCTION")
		}
		return nil, p.unsupported(p.peek(), "CREATE FUNCTION without RETURNS is not modelled")
	}
	f.Returns, err = p.parseType()
	if err != nil {
		return nil, err
	}
	var (
		bodyTok token
		hasBody bool
	)
	for !p.atEOF() {
		t := p.next()
		switch {
		case t.isKw("AS"):
			b := p.next()
			if hasBody {
				return nil, p.syntaxErr(t, "conflicting or redundant AS clauses")
			}
			switch b.kind {
			case tBody:
				bodyTok = b
			case tString:
				return nil, p.unsupported(b, "function body given as a quoted string is not modelled")
			default:
				return nil, p.syntaxErr(b, "expected the function body after AS, found %s", b.describe())
			}
			if p.isOp(",") {
				return nil, p.unsupported(p.peek(), "AS 'obj_file', 'link_symbol' is not modelled")
			}
			hasBody = true
		case t.isKw("LANGUAGE"):
			l := p.next()
			if f.Language != "" {
				return nil, p.syntaxErr(t, "conflicting or redundant LANGUAGE clauses")
			}
			switch l.kind {
			case tIdent:
				f.Language = strings.ToLower(l.text)
			case tString:
				f.Language = strings.ToLower(l.val)
			default:
				return nil, p.syntaxErr(l, "expected a language name, found %s", l.describe())
			}
		case t.isKw("IMMUTABLE"), t.isKw("STABLE"), t.isKw("VOLATILE"):
			f.Volatility = t.up
		case t.isKw("STRICT"):
			f.Strict = true
		case t.kind == tIdent:
			return nil, p.unsupported(t, "function option %s is not modelled", t.up)
		default:
			return nil, p.syntaxErr(t, "unexpected %s in CREATE FUNCTION", t.describe())
		}
	}
	if !hasBody {
		return nil, p.unsupported(p.peek(), "CREATE FUNCTION without an AS $$ body $$ is not modelled")
	}
	if f.Language == "" {
		return nil, p.unsupported(p.peek(), "CREATE FUNCTION without LANGUAGE is not modelled")
	}
	if f.Language != "plpgsql" {
		return nil, p.unsupported(bodyTok, "LANGUAGE %s is not modelled", f.Language)
	}
	f.BodyText = bodyTok.val
	params := make([]string, len(f.Params))
	for i, q := range f.Params {
		params[i] = Fold(q.Name)
	}
	f.Body, err = parseBody(p.src, bodyTok.inner, bodyTok.inner+len(bodyTok.val), params)
	if err != nil {
		return nil, err
	}
	return f, nil
}

// ---------------------------------------------------------------- ALTER TABLE

var fkActions = map[string]bool{"CASCADE": true, "RESTRICT": true, "SET NULL": true, "SET DEFAULT": true, "NO ACTION": true}

// constraintTrailers may follow a complete table constraint in valid SQL
// (constraint attributes, a further action after a comma).
var constraintTrailers = map[string]bool{
	"DEFERRABLE": true, "NOT": true, "INITIALLY": true, "NO": true, "MATCH": true,
	"USING": true, "INCLUDE": true, "WITH": true,
}

func (p *parser) parseAlterTable(raw string) (*Constraint, error) {
	p.next() // ALTER
	p.next() // TABLE
	if p.isKw("IF") {
		p.next()
		if err := p.expectKw("EXISTS"); err != nil {
			return nil, err
		}
	}
	p.acceptKw("ONLY")
	name, err := p.parseName("table name")
	if err != nil {
		return nil, err
	}
	c := &Constraint{Table: name, Kind: "other", Raw: raw}
	other := func() (*Constraint, error) {
		return &Constraint{Table: name, Kind: "other", Name: c.Name, Raw: raw}, nil
	}
	// finish accepts the end of the statement; valid-looking trailers make
	// the statement an unmodelled ("other") one, anything else is refused.
	finish := func() (*Constraint, error) {
		if p.atEOF() {
			return c, nil
		}
		t := p.peek()
		if t.isOp(",") || (t.kind == tIdent && constraintTrailers[t.up]) {
			return other()
		}
		return nil, p.unexpected("the end of the statement")
	}
	if p.atEOF() {
		return nil, p.syntaxErr(p.peek(), "incomplete ALTER TABLE")
	}
	if p.isOp("*") {
		return nil, p.unsupported(p.peek(), "ALTER TABLE name * is not modelled")
	}
	if t := p.peek(); t.kind != tIdent {
		return nil, p.syntaxErr(t, "expected an ALTER TABLE action, found %s", t.describe())
	}

	switch {
	case p.isKw("ADD"):
		p.next()
		if t := p.peek(); t.kind == tQIdent {
			return nil, p.unsupported(t, "quoted identifiers are not modelled")
		} else if t.kind != tIdent {
			return nil, p.syntaxErr(t, "expected a column or constraint definition after ADD, found %s", t.describe())
		}
		if p.acceptKw("CONSTRAINT") {
			c.Name, err = p.parseName("constraint name")
			if err != nil {
				return nil, err
			}
		}
		t := p.peek()
		switch {
		case t.isKw("CHECK"):
			p.next()
			if !p.acceptOp("(") {
				return nil, p.syntaxErr(p.peek(), "expected \"(\" after CHECK, found %s", p.peek().describe())
			}
			c.Check, err = p.parseExpr()
			if err != nil {
				return nil, err
			}
			if !p.acceptOp(")") {
				return nil, p.unexpected("\")\" closing the CHECK")
			}
			c.Kind = "check"
			return finish()

		case t.isKw("UNIQUE") && p.peekAt(1).isOp("("):
			p.next()
			c.Columns, err = p.parseNameList("UNIQUE column list")
			if err != nil {
				return nil, err
			}
			c.Kind = "unique"
			return finish()

		case t.isKw("PRIMARY") && p.peekAt(1).isKw("KEY") && p.peekAt(2).isOp("("):
			p.next()
			p.next()
			c.Columns, err = p.parseNameList("PRIMARY KEY column list")
			if err != nil {
				return nil, err
			}
			c.Kind = "primary_key"
			return finish()

		case t.isKw("FOREIGN"):
			p.next()
			if !p.acceptKw("KEY") {
				return nil, p.syntaxErr(p.peek(), "expected KEY after FOREIGN, found %s", p.peek().describe())
			}
			c.Columns, err = p.parseNameList("FOREIGN KEY column list")
			if err != nil {
				return nil, err
			}
			if !p.acceptKw("REFERENCES") {
				return nil, p.syntaxErr(p.peek(), "expected REFERENCES, found %s", p.peek().describe())
			}
			c.RefTable, err = p.parseName("referenced table name")
			if err != nil {
				return nil, err
			}
			if p.isOp("(") {
				c.RefColumns, err = p.parseNameList("referenced column list")
				if err != nil {
					return nil, err
				}
			}
			for p.isKw("ON") {
				on := p.next()
				ev := p.next()
				if !ev.isKw("DELETE") && !ev.isKw("UPDATE") {
					return nil, p.syntaxErr(ev, "expected DELETE or UPDATE after ON, found %s", ev.describe())
				}
				a := p.next()
				action := a.up
				if a.isKw("SET") || a.isKw("NO") {
					b := p.next()
					if b.kind != tIdent {
						return nil, p.syntaxErr(b, "incomplete referential action")
					}
					action += " " + b.up
				}
				if a.kind != tIdent || !fkActions[action] {
					return nil, p.syntaxErr(a, "invalid referential action %s", a.describe())
				}
				if p.isOp("(") {
					return nil, p.unsupported(p.peek(), "column list after SET NULL / SET DEFAULT is not modelled")
				}
				if ev.up == "DELETE" {
					if c.OnDelete != "" {
						return nil, p.syntaxErr(on, "ON DELETE specified more than once")
					}
					c.OnDelete = action
				} else {
					if c.OnUpdate != "" {
						return nil, p.syntaxErr(on, "ON UPDATE specified more than once")
					}
					c.OnUpdate = action
				}
			}
			c.Kind = "foreign_key"
			return finish()
		}
		return other()

	case p.isKw("ALTER"):
		p.next()
		p.acceptKw("COLUMN")
		col := p.peek()
		if col.kind != tIdent {
			return other()
		}
		p.next()
		if p.isKw("SET") && p.peekAt(1).isKw("DEFAULT") {
			p.next()
			p.next()
			c.Default, err = p.parseExpr()
			if err != nil {
				return nil, err
			}
			c.Columns = []string{col.text}
			c.Kind = "set_default"
			return finish()
		}
		return other()
	}
	return other()
}

// ---------------------------------------------------------------- closure

// builtins are the functions implemented by the evaluator.
var builtins = map[string]bool{
	"jsonb_typeof": true, "jsonb_array_length": true, "array_length": true,
	"bool_and": true, "jsonb_each": true, "jsonb_array_elements": true,
}

// IsBuiltin reports whether name is a function modelled by the evaluator.
func IsBuiltin(name string) bool { return builtins[Fold(name)] }

// CalledFunctions lists (lower-cased, sorted, without duplicates) the names of
// the functions called in function bodies, column CHECKs and constraint
// CHECKs, excluding the modelled builtins.
func (s *Script) CalledFunctions() []string {
	seen := map[string]bool{}
	visit := func(e Expr) {
		if c, ok := e.(*Call); ok && !IsBuiltin(c.Func) {
			seen[Fold(c.Func)] = true
		}
	}
	for _, f := range s.Functions {
		if f.Body == nil {
			continue
		}
		for _, d := range f.Body.Decls {
			walkExpr(d.Init, visit)
		}
		walkStmts(f.Body.Stmts, visit)
	}
	for _, t := range s.Tables {
		for _, c := range t.Columns {
			walkExpr(c.Check, visit)
		}
	}
	for _, c := range s.Constraints {
		walkExpr(c.Check, visit)
	}
	out := make([]string, 0, len(seen))
	for n := range seen {
		out = append(out, n)
	}
	sort.Strings(out)
	return out
}

// reservedWords are the PostgreSQL reserved key words (they cannot be used
// as column or table names without quoting). The parsers accept them as
// identifiers; callers that care can ask.
var reservedWords = map[string]bool{}

func init() {
	for _, w := range strings.Fields(`all analyse analyze and any array as asc asymmetric both case cast
		check collate column constraint create current_catalog current_date current_role current_time
		current_timestamp current_user default deferrable desc distinct do else end except false fetch
		for foreign from grant group having in initially intersect into lateral leading limit localtime
		localtimestamp not null offset on only or order placing primary references returning select
		session_user some symmetric system_user table then to trailing true union unique user using
		variadic when where window with`) {
		reservedWords[w] = true
	}
}

// IsReservedWord reports whether name is a reserved key word of PostgreSQL,
// which cannot be a column or table name unless quoted.
func IsReservedWord(name string) bool { return reservedWords[Fold(name)] }
