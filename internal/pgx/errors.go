// Package pgx is a small, purpose-built model of the PostgreSQL dialect that
// the gomacro SQL generator emits: a script parser (CREATE TABLE, CREATE TYPE
// ... AS, CREATE FUNCTION ... LANGUAGE plpgsql, ALTER TABLE ...), a parser for
// the expression and PL/pgSQL subset used by the generated jsonb validators
// and CHECK constraints, and an evaluator with SQL three-valued logic.
//
// It is NOT PostgreSQL. The rule followed everywhere is two-sided:
//
//   - text that cannot be valid PostgreSQL at all is reported as *SyntaxError;
//   - text that is (or may be) valid PostgreSQL but lies outside the modelled
//     subset is reported as *Unsupported.
//
// When in doubt the package answers *Unsupported, so a *SyntaxError can be
// trusted as "PostgreSQL would reject this text".
//
// Stated modelling assumptions of the evaluator:
//
//   - AND / OR evaluate left to right and short-circuit;
//   - typing is dynamic: a type error (text = numeric ...) is raised when the
//     comparison is evaluated with two non-NULL operands, whereas PostgreSQL
//     rejects the statement when it is parsed;
//   - numeric (decimal) SQL values are held as float64; jsonb numbers keep
//     their exact decimal text (json.Number);
//   - a jsonb null cast to integer raises (PostgreSQL <= 17 behaviour);
//   - reserved words are accepted as identifiers (see IsReservedWord).
package pgx

import "fmt"

// SyntaxError reports text that cannot be valid PostgreSQL / PL/pgSQL.
type SyntaxError struct {
	Line, Col int // 1-based position in the text given to the parser
	Msg       string
}

func (e *SyntaxError) Error() string {
	return fmt.Sprintf("pgx: syntax error at %d:%d: %s", e.Line, e.Col, e.Msg)
}

// Unsupported reports a construct that is valid (or possibly valid) SQL but
// outside the subset modelled by this package. It is returned by the parsers
// (with a position) and by the evaluator (Line == 0).
type Unsupported struct {
	Line, Col int
	Msg       string
}

func (e *Unsupported) Error() string {
	if e.Line == 0 {
		return "pgx: unsupported: " + e.Msg
	}
	return fmt.Sprintf("pgx: unsupported at %d:%d: %s", e.Line, e.Col, e.Msg)
}

// RaisedError is a PostgreSQL run-time ERROR raised while evaluating.
type RaisedError struct{ Msg string }

func (e *RaisedError) Error() string { return "pgx: ERROR: " + e.Msg }

// UndefinedFunction is returned when a called function is neither a modelled
// builtin nor defined in the script (or is called with the wrong number of
// arguments).
type UndefinedFunction struct {
	Name  string // lower-cased
	NArgs int
}

func (e *UndefinedFunction) Error() string {
	return fmt.Sprintf("pgx: ERROR: function %s with %d argument(s) does not exist", e.Name, e.NArgs)
}

// UndefinedColumn is returned when an identifier cannot be resolved.
type UndefinedColumn struct{ Name string }

func (e *UndefinedColumn) Error() string {
	return fmt.Sprintf("pgx: ERROR: column %q does not exist", e.Name)
}

func raisef(format string, args ...interface{}) error {
	return &RaisedError{Msg: fmt.Sprintf(format, args...)}
}

func unsupportedf(format string, args ...interface{}) error {
	return &Unsupported{Msg: fmt.Sprintf(format, args...)}
}
